#!/usr/bin/env python3
"""Regenerates MANIFEST.json from manifest_data.json ({"claimed": {id: [level text, level note]}, "na": {id: reason}})."""
import json
_D = json.load(open('/verif/manifest_data.json'))
CLAIMED = {k: tuple(v) for k, v in _D['claimed'].items()}
NA = _D['na']
def main():
    import sys
    claimed = [c for c in sorted(CLAIMED) if c in sys.argv[1:]] if len(sys.argv) > 1 else sorted(CLAIMED)
    na = dict(NA)
    for c in CLAIMED:
        if c not in claimed:
            na[c] = 'not claimed: check withdrawn (see DESIGN.md 10)'
    m = {
     'version': 1,
     'setup_cmd': './check --setup',
     'hooks': {
      'guard': 'verif_mir / verif_replay (rustc --cfg, set only on a scratch copy of /repo/base; /repo carries no hooks)',
      'enable': 'overlay: ./check rsyncs /repo/base to a scratch dir under /var/tmp, mounts harness/*.rs as modules there, dumps MIR with nightly and builds the native replay binary; the scratch copy is deleted afterwards',
      'baseline_off_cmd': 'cd /repo && cargo test --workspace --no-fail-fast --offline',
      'source_commits': [],
      'add_only': True,
     },
     'engines': [{'name': 'mirsym', 'path': 'mirsym/', 'serves_properties': claimed,
                  'kind_free_text': 'path-forking symbolic executor over the rustc MIR text of /repo/base + harness; z3 decides every branch and assertion query; counterexamples and one witness per path are replayed natively'}],
     'checks': [],
     'notes': 'exit 0 held within bounds; exit 1 VIOLATION (reproduced natively); exit 2 inconclusive. Known findings: known_findings.json.',
     'not_applicable': [{'property_id': k, 'reason': v} for k, v in sorted(na.items())],
    }
    for c in claimed:
        text, note = CLAIMED[c]
        m['checks'].append({
         'property_id': c,
         'quick_cmd': './check %s --tier quick' % c,
         'thorough_cmd': './check %s --tier thorough' % c,
         'evidence_file': '/verif/evidence/%s.json' % c,
         'replay_cmd_template': './check %s --replay {path}' % c,
         'engine': 'mirsym',
         'level_claimed': {'category': 'model_checking',
                           'text': 'bounded symbolic execution of the real code, solver-decided: ' + text,
                           'design_ref': 'DESIGN.md 5 (%s) and 10' % c},
         'level_note': note + '; trusted: rustc MIR of the pinned nightly, the mirsym interpreter + std models (each explored path re-executed natively with identical trace), z3 5.1 (plus cvc5 1.0.3 and z3 4.8.12 for the queries z3 5.1 leaves unknown; a sat answer of theirs is re-established by z3 5.1)',
         'technique': 'symbolic execution of rustc MIR + z3, native replay',
        })
    json.dump(m, open('/verif/MANIFEST.json', 'w'), indent=1)
    print('claimed', claimed)
main()
