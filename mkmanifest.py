#!/usr/bin/env python3
"""Regenerates MANIFEST.json from the table below (kept next to the checks so the two cannot drift)."""
import json
CLAIMED = {
 'C08': ('the single function through which every formula result reaches a cell (Model::set_cells_with_result), for each kind of formula cell and a result that is any f64 or an array of up to 2x2 of any f64: afterwards no cell of the block stores NaN or an infinity (scalar and array paths)',
         'outside: whether a built-in function can produce a non-finite value (the function library), numbers typed by the user or read from files; mechanism-level claim anchored at set_cells_with_result'),
 'C31': ("the spill write step (set_cells_with_result on a dynamic anchor, result 1x1..2x2 of arbitrary finite numbers, symbolic neighbours): either every cell of the m x n block holds its element (anchor records n x m, spill cells name the anchor) and nothing outside is written, or - exactly when a block cell holds user content or another formula's spill, or the block leaves the grid - the anchor shows #SPILL! and no neighbour changes; user content is never overwritten",
         'outside: staleness across evaluation passes, undo, structural edits, paste (histories through the evaluator); results larger than 2x2'),
 'C11': ('panic-freedom, decided over every ASCII string up to the bound: the real formula lexer (A1 and R1C1 mode, en locale built by hand, en language with concrete boolean/error names) always reaches EOF; the number-format lexer/parser and date-format detector; column_to_number, parse_reference_a1/r1c1, is_valid_identifier, is_valid_column, quote_name. Every overflow / index / unwrap panic path is a query',
         'outside: the formula parser, formula completion, set_user_input, the number formatter (float to digits), non-ASCII text, strings longer than 3 (lexers) / 4 (helpers), other locales and languages'),
 'C30': ('style pools: any two styles from the symbolic attribute space interned one after the other read back field-for-field, the first still reads back after the second, different styles never share an index; any three number formats (built-in, custom, text) keep their own codes; two cells styled through Model::set_cell_style read back through get_style_for_cell',
         'outside: font names/colours, borders, named styles, row/column style plumbing above the pool (the row/column records are under C29), import/export'),
 'C19': ('the recogniser parse_number on every ASCII string up to the bound against a reference scanner written from the property: accepted => number shape with separators followed by multiples of three digits; value = sign x f64 of exactly the scanned digits; grouped/scientific flags; every ordinary well-formed number is accepted. parse_formatted_number against that kernel on the stripped text for percent, the three currency positions and plain numbers: value with the right sign (incl. -$ with an exponent), /100 for percent, and a format of the stated kind',
         'outside: the numeric value of a digit string (f64::from_str: validity = its documented grammar, value uninterpreted), typed dates (chrono), white space, non-ASCII currency symbols/separators (the real fr/de group separators), what Model::set_user_input does with the result'),
 'C16': ('cut: to_string_moved on reference and range nodes with symbolic formula cell, target, cut area and paste offset - a reference to a cut cell points to where it went (same $ flags, #REF! off the grid), a range moves only if both corners are cut, everything else keeps its cell and gains the source sheet name when the formula changes sheet; ref_is_in_area = the rectangle test over the whole grid; copy: the A1 printer at the target cell shifts exactly the relative parts by the paste offset. Expected texts are built from $, number_to_column and the row number, not from the printer under test',
         'outside: the moved-formula printer for operators/functions/arrays (parenthesisation, separators), clipboard orchestration, CF ranges and defined names under cut, values; coordinates within 120 rows x 30 columns'),
 'C34': ('F4 rewrite kernel (next_state, cycle_endpoint, cycle_token_text): on every reference/range token text assembled from symbolic sheet prefix, $ markers, letters of either case and digits, one F4 equals the cycle of the property (A1->$A$1->A$1->$A1, column-only/row-only toggle, letters upper-cased, prefix byte-identical) and four F4 return the upper-cased original; next_state has period exactly four; on any ASCII text <=4 (<=6 thorough) only $ markers and letter case change',
         'cycle_reference with the real tokenizer is decided on =<ref or range, optional sheet prefix>+<ref> with symbolic $ markers and every cursor/selection: exactly the touched references are cycled and the returned cursor follows the documented rule; outside: other formula shapes for the cursor rule, non-ASCII text'),
 'C01': ('inductive step on 19 operation kinds (set_columns_width/hidden, set_rows_height/hidden, frozen rows/columns, grid lines, sheet colour, hide/unhide/delete/new/move sheet, insert/delete rows and columns, move rows/columns): from an arbitrary cell-free workbook (<=2 sheets with a symbolic column descriptor and row record each, or <=3 sheets with symbolic visibility) `op; undo` restores every listed observable - sheet names/order/visibility/colour/ids, frozen panes, grid lines, links, and what column x / row y show (width, hidden, style) at symbolic probes',
         'outside: every operation whose diff carries cell content (input, arrays, clears, cell styles, borders, named styles, paste, autofill, defined names, conditional formats, rename/duplicate sheet, locale/timezone/name/theme) and every structural operation on a sheet that holds cells (parser, set_user_input, evaluator); selection/view state is not compared; pre-state built directly (intercepted Model::from_workbook), history built by the operation itself'),
 'C02': ('same family: `op; undo; redo` shows exactly what `op` showed; History alone: any sequence of <=5 push/undo/redo calls behaves as a cursor over the operation list (push truncates after the cursor, undo/redo return the operation they cross, stack sizes = cursor position)',
         'outside: every operation whose diff carries cell content (input, arrays, clears, cell styles, borders, named styles, paste, autofill, defined names, conditional formats, rename/duplicate sheet, locale/timezone/name/theme) and every structural operation on a sheet that holds cells (parser, set_user_input, evaluator); selection/view state is not compared; pre-state built directly (intercepted Model::from_workbook), history built by the operation itself'),
 'C03': ("same family: a second model of the same workbook that applies the primary's outgoing queue entry by entry (the loop of apply_external_diffs; op, optionally undone, optionally redone) shows the same observables",
         'outside: every operation whose diff carries cell content (input, arrays, clears, cell styles, borders, named styles, paste, autofill, defined names, conditional formats, rename/duplicate sheet, locale/timezone/name/theme) and every structural operation on a sheet that holds cells (parser, set_user_input, evaluator); selection/view state is not compared; pre-state built directly (intercepted Model::from_workbook), history built by the operation itself; the bitcode encoding of the queue is cut out (identity)'),
 'C04': ('same 18 failing-capable operations with arguments unconstrained within |a|,|b| <= 4 000 000, sizes in {valid, negative, NaN, +inf}, nonexistent sheets, history holding one entry on the undo or the redo side: whenever the call returns Err the whole workbook (derived PartialEq, every field), both history stacks and the send queue are unchanged',
         'outside: every operation whose diff carries cell content (input, arrays, clears, cell styles, borders, named styles, paste, autofill, defined names, conditional formats, rename/duplicate sheet, locale/timezone/name/theme) and every structural operation on a sheet that holds cells (parser, set_user_input, evaluator); selection/view state is not compared; pre-state built directly (intercepted Model::from_workbook), history built by the operation itself; spans/counts of range operations <=3 lines (the operations loop over them)'),
 'C28': ('after each of the 19 operations, its undo and its redo, and after set_selected_sheet/cell/range and arrow up/left/down/right with unconstrained arguments (Ok or Err): selected sheet < sheet count, selected cell inside the rectangle spanned by the selected range, all inside the grid',
         'outside: page up/down, area selecting, navigate-to-edge and range expansion (pixel sums over float sizes), duplicate_sheet, sheets with cells; arrow down/right start within 3 lines of the top-left visible cell'),
 'C12': ('(a) one reference: stringify_reference under row/column insertion (all four $ combinations, any in-grid context cell/target/position/count, same or other sheet) equals the insertion map on cells, off-grid => #REF!; (b) ranges: the tree printer to_string_displaced on Node::RangeKind - both corners follow the map (interior insertion grows the range), whole-column/whole-row ranges stay, other-sheet edits leave it alone (coordinates <=120 rows x 30 columns quick, whole grid thorough); (c) the real Model::insert_rows/insert_columns on a cell-free sheet: column descriptors, row records and hyperlinks land on the shifted line (<=2 descriptors/records, 1 link, any position/count); (d) cells with content: the same real Model operation on a sheet holding one cell at a symbolic position - a number (1.5, 123), a boolean, a shared string, an empty styled cell or the quote-prefixed text \'123, default or bold style, next to a styled column - keeps its content, value type and style at the mapped position and nothing else appears (move_cell -> display text -> set_user_input -> number recogniser / booleans / errors / shared strings / style pool, executed from the MIR; en and de locale)',
         'outside: formulas and CSE arrays in cells (parser/evaluator), cell contents other than the six kinds above, defined names, spills, recomputed values, the parser that produced the node; oracle (a)/(b) trusts the same corner printer with no edit to render the expected coordinates'),
 'C13': ('(a) one reference under row/column deletion: deleted band => #REF!, after => shifted, before => unchanged; (b) ranges through to_string_displaced: each corner by the deletion map, corner on a deleted line => #REF!, whole-column/row ranges untouched; (c) real Model::delete_rows/delete_columns on cell-free sheets: descriptors (cases A-F), row records and links outside the band keep their attributes at the shifted line, links inside the band are dropped; (d) cells with content under deletion: the same real Model operation on a sheet holding one cell at a symbolic position - a number (1.5, 123), a boolean, a shared string, an empty styled cell or the quote-prefixed text \'123, default or bold style, next to a styled column - keeps its content, value type and style at the mapped position and nothing else appears (move_cell -> display text -> set_user_input -> number recogniser / booleans / errors / shared strings / style pool, executed from the MIR; en and de locale)',
         'outside: formulas in cells (parser/evaluator), cell contents other than the six kinds listed, recomputed values, defined names'),
 'C14': ('(a) displace_cf_row/col: insert k at p then delete k at p is the identity on every coordinate not pushed off the grid; (b) real Model::insert_columns;delete_columns and insert_rows;delete_rows on cell-free sheets: every column descriptor / row record read at a symbolic probe and the hyperlink map are unchanged, descriptors stay well-formed; (c) insert;delete on a sheet holding one cell of the six content kinds of C12(d): the cell record (content, type, style) is unchanged',
         'outside: formulas in cells, formula text, computed values (parser/evaluator), contents other than the six kinds'),
 'C15': ('(a) single row/column move rewrites references by the move permutation (stringify_reference RowMove/ColumnMove, whole grid); (b) chain of single moves on CF coordinates = block permutation (block <=2 quick / <=3 thorough); (c) real Model::move_rows_action / move_columns_action on cell-free sheets: row records, observable column attributes (width when shown, hidden, style) and hyperlinks land at the block-permuted line (block <=3 rows / <=2 columns, |offset| <=2 quick; <=3,<=3 thorough); (d) block moves of rows (block <=2, |offset| <=2) and single-column moves on a sheet holding one cell of the six content kinds of C12(d): content, type and style arrive at the permuted position',
         'outside: formulas in cells, array-formula split checks (can_move_*), ranges under moves, values; column widths are the concrete values 8/13/21/34 (exact under the x9,/9 pixel conversion the move performs)'),
 'C22': ('column letters <-> numbers bijective (one symbolic i32 over all values; every ASCII string of length 0..=4); every valid sheet name over printable ASCII (<=2 chars quick, <=3 thorough), quoted as quote_name quotes it and followed by !A1, is read back by the real formula lexer as a reference into exactly that sheet',
         'outside: A1/R1C1 print->parse of references and ranges through the parser (the A1 printer itself is checked against an independent text builder under C16), longer and non-ASCII names'),
 'C27': ('column descriptors stay sorted and disjoint (min<=max) and row records unique after one Model-level structural edit (insert/delete any position and count, block move) and after each Worksheet attribute setter (ids C27.* inside the C29 harnesses), from an arbitrary well-formed in-grid layout (inductive step, <=2 descriptors/records)',
         'outside: sheet names/ids, cells inside the grid, style/shared-string/formula indices, spill anchors, defined names; descriptors are not required to stay inside the grid (the property does not say so)'),
 'C29': ('frame + effect conditions of set_column_hidden/style/width, delete_column_style, set_row_hidden/style/height at a symbolic probe column/row from an arbitrary well-formed layout (<=2 descriptors / <=2 row records): exactly the targeted attribute of exactly the targeted line changes; width/height kept by hide/unhide/style',
         'outside: exact float value of a width read back through x/9*9 (setters that do this arithmetic run on the concrete widths 8/13/21/34), Model-level wrappers (sheet lookup)'),
 'C33': ('(a) conditional-format coordinates move by exactly the insertion/deletion/move maps stated for cells (displace_cf_row/col), any in-grid i32, any sheet ids; (b) hyperlinks: the real Model::insert_*/delete_*/move_*_action on a sheet with two links at symbolic cells - each link key moves by the same map, links in a deleted band are dropped, nothing else appears',
         'outside: CF rule formulas (parser), sqref strings, clear-removes-link and its undo, cut/paste orchestration'),
}
NA = {
 'C05': 'evaluator (recursive evaluate_node_in_context over parsed trees, 495 built-ins, HashMap caches) has no bounded encoding within reach',
 'C06': 'needs the whole parse->evaluate pipeline plus f64 parse/print, which are uninterpreted in this encoding',
 'C07': 'quantifies over whole workbooks and evaluation passes; evaluator not encodable',
 'C09': 'tree->String->tree through the recursive-descent parser and lexer with language tables; symbolic trees of useful depth degenerate to enumeration',
 'C10': 'same pipeline as C09 across five language tables loaded from bitcode data',
 'C17': 'sheet rename/duplicate rewrite every stored formula through parser and printer',
 'C18': 'display -> set_user_input round trip runs the number formatter (float->text) and the input interpreter end to end',
 'C20': 'subject is decimal rendering of f64 (format!("{:.*e}"), ryu); float-to-decimal is not encodable and cannot be left uninterpreted because it is the property',
 'C21': 'tried and withdrawn: the conversion functions call chrono (NaiveDate::from_ymd_opt, Add<TimeDelta>, num_days_from_ce, Datelike). mirsym executes them from chrono\'s own MIR (dumped with -p chrono; NonZero, trait-argument dispatch and a division lemma for the 64-bit /86400 were added), but the assertion query for a ONE-year slice of serials takes ~220 s and the encoding then disagrees with the native run (caught by the per-path native validation), so no sound bounded claim is within reach; the whole range would need ~8000 such slices',
 'C23': 'finite table facts read from language.bin via bitcode; nothing symbolic to decide, enumerating the table is not this technique',
 'C24': 'zip + XML writer/reader over whole workbooks; I/O-bound byte streams of unbounded length',
 'C25': 'same reader on arbitrary bytes (zip inflate, XML tokenizer in third-party crates); loops grow with input',
 'C26': 'bitcode encode/decode of the whole workbook plus re-parse of every formula on load',
 'C32': 'defined names are re-parsed by three different parsers on every structural change; parser-bound like C09/C17',
}
def main():
    import sys
    claimed = [c for c in sorted(CLAIMED) if c in sys.argv[1:]] if len(sys.argv) > 1 else sorted(CLAIMED)
    na = dict(NA)
    for c in CLAIMED:
        if c not in claimed:
            na[c] = 'not claimed: check withdrawn (see DESIGN.md 10)'
    m = {
     'version': 1,
     'setup_cmd': './check --setup',
     'hooks': {
      'guard': 'verif_mir / verif_replay (rustc --cfg, set only on a scratch copy of /repo/base; /repo carries no hooks)',
      'enable': 'overlay: ./check rsyncs /repo/base to a scratch dir under /var/tmp, mounts harness/*.rs as modules there, dumps MIR with nightly and builds the native replay binary; the scratch copy is deleted afterwards',
      'baseline_off_cmd': 'cd /repo && cargo test --workspace --no-fail-fast --offline',
      'source_commits': [],
      'add_only': True,
     },
     'engines': [{'name': 'mirsym', 'path': 'mirsym/', 'serves_properties': claimed,
                  'kind_free_text': 'path-forking symbolic executor over the rustc MIR text of /repo/base + harness; z3 decides every branch and assertion query; counterexamples and one witness per path are replayed natively'}],
     'checks': [],
     'notes': 'exit 0 held within bounds; exit 1 VIOLATION (reproduced natively); exit 2 inconclusive. Known findings: known_findings.json.',
     'not_applicable': [{'property_id': k, 'reason': v} for k, v in sorted(na.items())],
    }
    for c in claimed:
        text, note = CLAIMED[c]
        m['checks'].append({
         'property_id': c,
         'quick_cmd': './check %s --tier quick' % c,
         'thorough_cmd': './check %s --tier thorough' % c,
         'evidence_file': '/verif/evidence/%s.json' % c,
         'replay_cmd_template': './check %s --replay {path}' % c,
         'engine': 'mirsym',
         'level_claimed': {'category': 'model_checking',
                           'text': 'bounded symbolic execution of the real code, solver-decided: ' + text,
                           'design_ref': 'DESIGN.md 5 (%s) and 10' % c},
         'level_note': note + '; trusted: rustc MIR of the pinned nightly, the mirsym interpreter + std models (each explored path re-executed natively with identical trace), z3',
         'technique': 'symbolic execution of rustc MIR + z3, native replay',
        })
    json.dump(m, open('/verif/MANIFEST.json', 'w'), indent=1)
    print('claimed', claimed)
main()
