//! Formulas under structural edits (C12, C13, C14, C15): the whole rewrite pipeline on the real code - the formula is
//! typed through `Model::set_user_input` (real lexer + parser), the edit runs `displace_cells` over every formula
//! of every sheet (printer with displacement, re-parse, re-store), and the formula text is read back with
//! `Model::get_cell_formula`.  Expected texts are assembled from `$`, `number_to_column` and row numbers.
use super::rt::*;
use super::st::*;
use crate::constants::{LAST_COLUMN, LAST_ROW};
use crate::expressions::utils::number_to_column;
use crate::model::Model;
use crate::types::*;

fn a1(row: Option<i32>, col: Option<i32>, abs_row: bool, abs_col: bool) -> String {
    match (row, col) {
        (Some(r), Some(c)) if r >= 1 && r <= LAST_ROW && c >= 1 && c <= LAST_COLUMN =>
            format!("{}{}{}{}", if abs_col { "$" } else { "" }, number_to_column(c).unwrap_or_default(), if abs_row { "$" } else { "" }, r),
        _ => "#REF!".to_string(),
    }
}

/// two sheets; Sheet1 holds `=B2+$C$3+D10:E12+Sheet2!A1` at a symbolic cell, Sheet2 holds `=Sheet1!B2*2` at a symbolic cell
fn two_sheet_model(r: i32, c: i32, r2: i32, c2: i32) -> Option<Model<'static>> {
    let mut model = model_from_workbook(workbook_with_cells(vec![empty_sheet("Sheet1", 1), empty_sheet("Sheet2", 2)]));
    if model.set_user_input(0, r, c, "=B2+$C$3+D10:E12+Sheet2!A1".to_string()).is_err() { return None; }
    if model.set_user_input(1, r2, c2, "=Sheet1!B2*2".to_string()).is_err() { return None; }
    Some(model)
}
fn formula(m: &Model, sheet: u32, r: i32, c: i32) -> String { m.get_cell_formula(sheet, r, c).unwrap_or(None).unwrap_or_default() }

/// expected texts after mapping the row (rows = true) or column coordinate of every Sheet1 reference by `f`
/// edit: 0 insert k at p, 1 delete k at p
fn map_line(x: i32, edit: u8, p: i32, k: i32) -> Option<i32> { if edit == 0 { Some(pi_insert(x, p, k)) } else { pi_delete(x, p, k) } }
fn map_cell(r: i32, c: i32, rows: bool, edit: u8, p: i32, k: i32) -> (Option<i32>, Option<i32>) {
    if rows { (map_line(r, edit, p, k), Some(c)) } else { (Some(r), map_line(c, edit, p, k)) }
}
fn expected(rows: bool, edit: u8, p: i32, k: i32) -> (String, String) {
    let (b2, c3, d10, e12) = (map_cell(2, 2, rows, edit, p, k), map_cell(3, 3, rows, edit, p, k), map_cell(10, 4, rows, edit, p, k), map_cell(12, 5, rows, edit, p, k));
    (format!("={}+{}+{}:{}+Sheet2!A1", a1(b2.0, b2.1, false, false), a1(c3.0, c3.1, true, true), a1(d10.0, d10.1, false, false), a1(e12.0, e12.1, false, false)),
     // a deleted cell prints as a bare #REF! (no sheet prefix)
     if b2.0.is_some() && b2.1.is_some() { format!("=Sheet1!{}*2", a1(b2.0, b2.1, false, false)) } else { "=#REF!*2".to_string() })
}

/// the formula cells sit at fixed places (their stored form is relative to them); the edit is symbolic
fn positions() -> (i32, i32, i32, i32) { (20, 7, 3, 2) }

pub fn h_c12_formulas_insert_rows() {
    let (r, c, r2, c2) = positions();
    let entered = two_sheet_model(r, c, r2, c2);
    check("C12.formulas.entered", entered.is_some());
    let mut model = match entered { Some(m) => m, None => return };
    let (p, k) = (any_i32_in(1, 45), any_i32_in(1, 30));
    if model.insert_rows(0, p, k).is_ok() {
        let (w1, w2) = expected(true, 0, p, k);
        check("C12.formulas_insert_rows.same_sheet", formula(&model, 0, pi_insert(r, p, k), c) == w1);
        check("C12.formulas_insert_rows.other_sheet", formula(&model, 1, r2, c2) == w2);
    }
    reach("C12.formulas_insert_rows");
}

pub fn h_c12_formulas_insert_columns() {
    let (r, c, r2, c2) = positions();
    let entered = two_sheet_model(r, c, r2, c2);
    check("C12.formulas.entered", entered.is_some());
    let mut model = match entered { Some(m) => m, None => return };
    let (p, k) = (any_i32_in(1, 12), any_i32_in(1, 30));
    if model.insert_columns(0, p, k).is_ok() {
        let (w1, w2) = expected(false, 0, p, k);
        check("C12.formulas_insert_columns.same_sheet", formula(&model, 0, r, pi_insert(c, p, k)) == w1);
        check("C12.formulas_insert_columns.other_sheet", formula(&model, 1, r2, c2) == w2);
    }
    reach("C12.formulas_insert_columns");
}

/// deletion: references to deleted lines become #REF!, the rest shifts; the formula cells themselves are kept out of the band
pub fn h_c13_formulas_delete_rows() {
    let (r, c, r2, c2) = positions();
    let entered = two_sheet_model(r, c, r2, c2);
    check("C13.formulas.entered", entered.is_some());
    let mut model = match entered { Some(m) => m, None => return };
    let (p, k) = (any_i32_in(1, 19), any_i32_in(1, 19));
    assume(p + k <= r);
    if model.delete_rows(0, p, k).is_ok() {
        let (w1, w2) = expected(true, 1, p, k);
        check("C13.formulas_delete_rows.same_sheet", formula(&model, 0, r - k, c) == w1);
        check("C13.formulas_delete_rows.other_sheet", formula(&model, 1, r2, c2) == w2);
    }
    reach("C13.formulas_delete_rows");
}
pub fn h_c13_formulas_delete_columns() {
    let (r, c, r2, c2) = positions();
    let entered = two_sheet_model(r, c, r2, c2);
    check("C13.formulas.entered", entered.is_some());
    let mut model = match entered { Some(m) => m, None => return };
    let (p, k) = (any_i32_in(1, 6), any_i32_in(1, 6));
    assume(p + k <= c);
    if model.delete_columns(0, p, k).is_ok() {
        let (w1, w2) = expected(false, 1, p, k);
        check("C13.formulas_delete_columns.same_sheet", formula(&model, 0, r, c - k) == w1);
        check("C13.formulas_delete_columns.other_sheet", formula(&model, 1, r2, c2) == w2);
    }
    reach("C13.formulas_delete_columns");
}

/// insert then delete the same lines: every formula text is what it was
pub fn h_c14_formulas_insert_delete() {
    let (r, c, r2, c2) = positions();
    let entered = two_sheet_model(r, c, r2, c2);
    check("C14.formulas.entered", entered.is_some());
    let mut model = match entered { Some(m) => m, None => return };
    let rows = any_bool();
    let (p, k) = (any_i32_in(1, 45), any_i32_in(1, 30));
    let done = if rows { model.insert_rows(0, p, k).is_ok() && model.delete_rows(0, p, k).is_ok() }
               else { model.insert_columns(0, p, k).is_ok() && model.delete_columns(0, p, k).is_ok() };
    if done {
        check("C14.formulas.identity", (formula(&model, 0, r, c) == "=B2+$C$3+D10:E12+Sheet2!A1") & (formula(&model, 1, r2, c2) == "=Sheet1!B2*2"));
    }
    reach("C14.formulas");
}

/// moves: single-cell references follow their cells (ranges are left out: the property promises them only when they
/// lie entirely inside or outside the moved block and band)
fn move_model(r: i32, c: i32, r2: i32, c2: i32) -> Option<Model<'static>> {
    let mut model = model_from_workbook(workbook_with_cells(vec![empty_sheet("Sheet1", 1), empty_sheet("Sheet2", 2)]));
    if model.set_user_input(0, r, c, "=B2+$C$3+Sheet2!A1".to_string()).is_err() { return None; }
    if model.set_user_input(1, r2, c2, "=Sheet1!B2*2".to_string()).is_err() { return None; }
    Some(model)
}
pub fn h_c15_formulas_move_rows() {
    let (r, c, r2, c2) = positions();
    let entered = move_model(r, c, r2, c2);
    check("C15.formulas.entered", entered.is_some());
    let mut model = match entered { Some(m) => m, None => return };
    let (m, n, d) = (any_i32_in(1, 25), any_i32_in(1, 2), any_i32_in(-2, 2));
    assume(d != 0);
    if model.move_rows_action(0, m, n, d).is_ok() {
        let s = |x: i32| sigma_block(x, m, n, d);
        let w1 = format!("={}+{}+Sheet2!A1", a1(Some(s(2)), Some(2), false, false), a1(Some(s(3)), Some(3), true, true));
        let w2 = format!("=Sheet1!{}*2", a1(Some(s(2)), Some(2), false, false));
        check("C15.formulas_move_rows.same_sheet", formula(&model, 0, s(r), c) == w1);
        check("C15.formulas_move_rows.other_sheet", formula(&model, 1, r2, c2) == w2);
    }
    reach("C15.formulas_move_rows");
}
pub fn h_c15_formulas_move_columns() {
    let (r, c, r2, c2) = positions();
    let entered = move_model(r, c, r2, c2);
    check("C15.formulas.entered", entered.is_some());
    let mut model = match entered { Some(m) => m, None => return };
    let (m, d) = (any_i32_in(1, 9), any_i32_in(-2, 2));
    assume(d != 0);
    if model.move_columns_action(0, m, 1, d).is_ok() {
        let s = |x: i32| sigma_block(x, m, 1, d);
        let w1 = format!("={}+{}+Sheet2!A1", a1(Some(2), Some(s(2)), false, false), a1(Some(3), Some(s(3)), true, true));
        let w2 = format!("=Sheet1!{}*2", a1(Some(2), Some(s(2)), false, false));
        check("C15.formulas_move_columns.same_sheet", formula(&model, 0, r, s(c)) == w1);
        check("C15.formulas_move_columns.other_sheet", formula(&model, 1, r2, c2) == w2);
    }
    reach("C15.formulas_move_columns");
}

// ---- C16: cut & paste at the Model level - which formulas outside the cut area are rewritten, and to what
use crate::expressions::types::Area;

/// Sheet1 holds `=B2+$C$3` at E5 (fixed) and Sheet2 holds `=Sheet1!B2*2`; the cut area (rows 1..=6 x columns 1..=6,
/// up to 3x3) and the paste target are symbolic.  `get_external_formula_updates_for_cut` must report exactly the
/// formulas outside the area whose text changes, with references to cut cells pointing at the moved cells.
pub fn h_c16_model_cut_updates() {
    let (fr, fc) = (5, 5);
    let mut model = model_from_workbook(workbook_with_cells(vec![empty_sheet("Sheet1", 1), empty_sheet("Sheet2", 2)]));
    let entered = model.set_user_input(0, fr, fc, "=B2+$C$3".to_string()).is_ok() && model.set_user_input(1, 3, 2, "=Sheet1!B2*2".to_string()).is_ok();
    check("C16.model_cut.entered", entered);
    if !entered { return; }
    let area = Area { sheet: 0, row: any_i32_in(1, 6), column: any_i32_in(1, 6), width: any_i32_in(1, 3), height: any_i32_in(1, 3) };
    let (tr, tc) = (any_i32_in(1, 12), any_i32_in(1, 9));
    let (dr, dc) = (tr - area.row, tc - area.column);
    let inside = |r: i32, c: i32| (r >= area.row) & (r < area.row + area.height) & (c >= area.column) & (c < area.column + area.width);
    let res = model.get_external_formula_updates_for_cut(&area, tr, tc);
    check("C16.model_cut.no_error", res.is_ok());
    match res {
        Ok(updates) => {
            let b2 = if inside(2, 2) { a1(Some(2 + dr), Some(2 + dc), false, false) } else { "B2".to_string() };
            let c3 = if inside(3, 3) { a1(Some(3 + dr), Some(3 + dc), true, true) } else { "$C$3".to_string() };
            let w1 = format!("={}+{}", b2, c3);
            let w2 = format!("=Sheet1!{}*2", b2);
            let want1 = !inside(fr, fc) && w1 != "=B2+$C$3";
            let want2 = w2 != "=Sheet1!B2*2";
            let mut got1: Option<String> = None;
            let mut got2: Option<String> = None;
            let mut other = false;
            for (s, r, c, f) in updates {
                if s == 0 && r == fr && c == fc && got1.is_none() { got1 = Some(f); }
                else if s == 1 && r == 3 && c == 2 && got2.is_none() { got2 = Some(f); }
                else { other = true; }
            }
            check("C16.model_cut.no_other_updates", !other);
            check("C16.model_cut.same_sheet_formula_follows", if want1 { got1 == Some(w1) } else { got1.is_none() });
            check("C16.model_cut.other_sheet_formula_follows", if want2 { got2 == Some(w2) } else { got2.is_none() });
        }
        Err(_) => {}
    }
    reach("C16.model_cut");
}

// ---- C33: conditional-format rule formulas move like cell formulas (displace_cf_ranges -> real parser -> printer)
use crate::cf_types::{CfRule, ConditionalFormatting, ValueOperator};

/// Sheet1 carries a "between" rule on G20:H22 whose two bounds are `B2` and `$C$3`; a row / column insertion or a
/// deletion above the rule's range must leave both bounds pointing at the same cells (or #REF! when deleted)
pub fn h_c33_cf_rule_formulas() {
    let mut ws = empty_sheet("Sheet1", 1);
    ws.conditional_formatting.push(ConditionalFormatting {
        range: "G20:H22".to_string(),
        cf_rule: CfRule::CellIs { operator: ValueOperator::Between, formula: "B2".to_string(), formula2: Some("$C$3".to_string()), dxf_id: 0, stop_if_true: false },
        priority: 1,
    });
    let mut model = model_from_workbook(workbook_with_cells(vec![ws]));
    let (rows, edit) = (any_bool(), any_u8());
    assume(edit < 2);
    let (p, k) = (any_i32_in(1, 6), any_i32_in(1, 5));
    let done = if edit == 0 { if rows { model.insert_rows(0, p, k) } else { model.insert_columns(0, p, k) } }
               else if rows { model.delete_rows(0, p, k) } else { model.delete_columns(0, p, k) };
    if done.is_ok() {
        let (b2, c3) = (map_cell(2, 2, rows, edit, p, k), map_cell(3, 3, rows, edit, p, k));
        let (w1, w2) = (a1(b2.0, b2.1, false, false), a1(c3.0, c3.1, true, true));
        let cfs = &model.workbook.worksheets[0].conditional_formatting;
        check("C33.cf_rule.kept", cfs.len() == 1);
        if cfs.len() == 1 {
            let (f1, f2) = match &cfs[0].cf_rule {
                CfRule::CellIs { formula, formula2, .. } => (Some(formula.clone()), formula2.clone()),
                _ => (None, None),
            };
            check("C33.cf_rule.first_bound_follows", f1 == Some(w1));
            check("C33.cf_rule.second_bound_follows", f2 == Some(w2));
        }
    }
    reach("C33.cf_rule");
}

// ---- values under structural edits (C12, C13, C15): the real evaluator before and after the edit
use crate::cell::CellValue;
use std::collections::HashMap as ValMap;

/// Sheet1: B2 = x, C3 = y (from a menu of four numbers), G20 = `=B2+$C$3`; Sheet2: B3 = `=Sheet1!B2+1`
fn value_model(x: f64, y: f64) -> Option<Model<'static>> {
    let mut ws = empty_sheet("Sheet1", 1);
    let mut r2: ValMap<i32, Cell> = ValMap::new();
    r2.insert(2, Cell::NumberCell { v: x, s: 0 });
    ws.sheet_data.insert(2, r2);
    let mut r3: ValMap<i32, Cell> = ValMap::new();
    r3.insert(3, Cell::NumberCell { v: y, s: 0 });
    ws.sheet_data.insert(3, r3);
    let mut model = model_from_workbook(workbook_with_cells(vec![ws, empty_sheet("Sheet2", 2)]));
    if model.set_user_input(0, 20, 7, "=B2+$C$3".to_string()).is_err() { return None; }
    if model.set_user_input(1, 3, 2, "=Sheet1!B2+1".to_string()).is_err() { return None; }
    model.evaluate();
    Some(model)
}
const VALS: [f64; 4] = [1.5, -2.0, 4.0, 0.25];
fn fin_or_num_error(r: f64) -> CellValue { if r.is_finite() { CellValue::Number(r) } else { CellValue::String("#NUM!".to_string()) } }

/// edit: 0 insert rows, 1 insert columns, 2 delete rows, 3 delete columns, 4 move rows, 5 move columns
fn values_case(edit: u8, id: &'static str) {
    // the moved cells are re-entered through their text: numbers that print as plain decimals
    let (x, y) = (VALS[any_usize_to(VALS.len() - 1)], VALS[any_usize_to(VALS.len() - 1)]);
    let entered = value_model(x, y);
    check("C12.values.entered", entered.is_some());
    let mut model = match entered { Some(m) => m, None => return };
    let want1 = || fin_or_num_error(x + y);
    let want2 = || fin_or_num_error(x + 1.0);
    check("C12.values.before", (model.get_cell_value_by_index(0, 20, 7) == Ok(want1())) & (model.get_cell_value_by_index(1, 3, 2) == Ok(want2())));
    let rows = edit % 2 == 0;
    let (fr, fc) = (20, 7);
    let (p, k) = (any_i32_in(1, 25), any_i32_in(1, 4));
    let d = any_i32_in(-2, 2);
    let done = if edit == 0 { model.insert_rows(0, p, k) } else if edit == 1 { model.insert_columns(0, p, k) }
        else if edit == 2 { assume(p + k <= fr); model.delete_rows(0, p, k) } else if edit == 3 { assume(p + k <= fc); model.delete_columns(0, p, k) }
        else if edit == 4 { assume((d != 0) & (k <= 2)); model.move_rows_action(0, p, k, d) } else { assume(d != 0); model.move_columns_action(0, p, 1, d) };
    if done.is_ok() {
        model.evaluate();
        // where the formula cell went
        let line = if rows { fr } else { fc };
        let new_line = if edit <= 1 { pi_insert(line, p, k) } else if edit <= 3 { line - k } else if edit == 4 { sigma_block(line, p, k, d) } else { sigma_block(line, p, 1, d) };
        let (nr, nc) = if rows { (new_line, fc) } else { (fr, new_line) };
        // a deletion that takes a referenced line away turns the reference into #REF!
        let hit = |l: i32| (edit == 2 || edit == 3) && p <= l && l < p + k;
        let (lost_b2, lost_c3) = (hit(2), hit(3));
        let got1 = model.get_cell_value_by_index(0, nr, nc);
        let got2 = model.get_cell_value_by_index(1, 3, 2);
        let ref_err = || CellValue::String("#REF!".to_string());
        check(id, (got1 == Ok(if lost_b2 || lost_c3 { ref_err() } else { want1() })) & (got2 == Ok(if lost_b2 { ref_err() } else { want2() })));
    }
}
pub fn h_c12_values_insert_rows() { values_case(0, "C12.values_insert_rows.values_kept"); reach("C12.values_insert_rows"); }
pub fn h_c12_values_insert_columns() { values_case(1, "C12.values_insert_columns.values_kept"); reach("C12.values_insert_columns"); }
pub fn h_c13_values_delete_rows() { values_case(2, "C13.values_delete_rows.values_kept_or_ref_error"); reach("C13.values_delete_rows"); }
pub fn h_c13_values_delete_columns() { values_case(3, "C13.values_delete_columns.values_kept_or_ref_error"); reach("C13.values_delete_columns"); }
pub fn h_c15_values_move_rows() { values_case(4, "C15.values_move_rows.values_kept"); reach("C15.values_move_rows"); }
pub fn h_c15_values_move_columns() { values_case(5, "C15.values_move_columns.values_kept"); reach("C15.values_move_columns"); }
