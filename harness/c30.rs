//@parent styles
//! C30 - styles are stored and read back faithfully: the style pools (`Styles`) under a sequence of three
//! interned styles drawn from a symbolic attribute space (number formats from a menu that mixes built-in codes,
//! custom codes and the text format "@"; font flags/size/colour; fill; alignment; quote prefix), then through
//! `Model::set_cell_style` / `get_style_for_cell` for two cells.
use crate::types::*;
use crate::verif::rt::*;
use crate::verif::st::*;

const FORMATS: [&str; 4] = ["general", "0.00", "0.000", "@"];

/// number format from the menu (a built-in code, a custom code, the text format), fill colour or none, optional
/// alignment: these choose the shape of the style; bold/italic/size/wrap/quote prefix are symbolic inside it
pub fn any_style() -> Style {
    let f = any_usize_to(FORMATS.len() - 1);
    let mut s = Style::default();
    s.num_fmt = FORMATS[f].to_string();
    s.font.b = any_bool();
    s.font.i = any_bool();
    s.font.sz = any_i32();
    s.quote_prefix = any_bool();
    if any_bool() { s.fill.color = Color::Rgb("#FF0000".to_string()); }
    if any_bool() {
        s.alignment = Some(Alignment { horizontal: HorizontalAlignment::Center, vertical: VerticalAlignment::Bottom, wrap_text: any_bool() });
    }
    s
}

/// styles that differ in their number format only
fn style_with_format(f: usize) -> Style { let mut s = Style::default(); s.num_fmt = FORMATS[f].to_string(); s }

/// two styles interned one after the other: each reads back as itself, the first keeps reading back as itself,
/// and two different styles never share an index
pub fn h_c30_pool() {
    let mut styles = Styles::default();
    let (s1, s2) = (any_style(), any_style());
    let i1 = styles.get_style_index_or_create(&s1);
    check("C30.pool.first_reads_back", styles.get_style(i1) == Ok(s1.clone()));
    let i2 = styles.get_style_index_or_create(&s2);
    check("C30.pool.second_reads_back", styles.get_style(i2) == Ok(s2.clone()));
    check("C30.pool.first_still_reads_back", styles.get_style(i1) == Ok(s1.clone()));
    check("C30.pool.no_sharing", (s1 == s2) | (i1 != i2));
    reach("C30.pool");
}

/// three number formats in any order (custom codes, built-in codes, the text format): every style keeps its own
pub fn h_c30_number_formats() {
    let mut styles = Styles::default();
    let (f1, f2, f3) = (any_usize_to(3), any_usize_to(3), any_usize_to(3));
    let (s1, s2, s3) = (style_with_format(f1), style_with_format(f2), style_with_format(f3));
    let i1 = styles.get_style_index_or_create(&s1);
    let i2 = styles.get_style_index_or_create(&s2);
    let i3 = styles.get_style_index_or_create(&s3);
    check("C30.formats.read_back", (styles.get_style(i1) == Ok(s1.clone())) & (styles.get_style(i2) == Ok(s2.clone())) & (styles.get_style(i3) == Ok(s3.clone())));
    check("C30.formats.no_sharing", ((f1 == f2) | (i1 != i2)) & ((f1 == f3) | (i1 != i3)) & ((f2 == f3) | (i2 != i3)));
    reach("C30.number_formats");
}

/// the same through the model: styles assigned to two cells, a row and a column are read back identically
pub fn h_c30_model_cells() {
    let mut model = model_from_workbook(workbook_with(vec![empty_sheet("Sheet1", 1)], 0));
    model.workbook.styles = Styles::default();
    let (s1, s2) = (any_style(), any_style());
    let ok1 = model.set_cell_style(0, 1, 1, &s1).is_ok();
    let ok2 = model.set_cell_style(0, 5, 7, &s2).is_ok();
    check("C30.model.set_ok", ok1 & ok2);
    check("C30.model.cell1_reads_back", model.get_style_for_cell(0, 1, 1) == Ok(s1.clone()));
    check("C30.model.cell2_reads_back", model.get_style_for_cell(0, 5, 7) == Ok(s2.clone()));
    reach("C30.model_cells");
}
