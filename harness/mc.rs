//! Cells with content under structural edits (C12, C13, C14, C15): the real `Model::insert_* / delete_* / move_*`
//! on a sheet holding one cell of plain content at a symbolic position.  The cell travels through `move_cell`
//! (display text re-entered through `set_user_input`: number recogniser, booleans, errors, shared strings, styles).
use super::rt::*;
use super::st::*;
use crate::constants::{LAST_COLUMN, LAST_ROW};
use crate::model::Model;
use crate::types::*;
use std::collections::HashMap;

struct Pre { model: Model<'static>, cell: Cell, r: i32, c: i32 }

/// content kind 0: number 1.5, 1: boolean, 2: text "abc", 3: number 123, 4: empty cell carrying a style,
/// 5: the quote-prefixed text '123 (a string that looks like a number).  Style: default or bold.
/// `de`: the workbook locale is de (decimal comma), so 1.5 is displayed and re-entered as "1,5".
fn any_pre(de: bool, with_quoted: bool) -> Pre {
    let (r, c) = (any_row_index(), any_col_index());
    let mut ws = empty_sheet("Sheet1", 1);
    let mut wb = workbook_with_cells(vec![]);
    if de { wb.settings.locale = "de".to_string(); }
    let mut bold = Style::default();
    bold.font.b = true;
    let bold_idx = wb.styles.get_style_index_or_create(&bold);
    let quoted_idx = match wb.styles.get_style_with_quote_prefix(0) { Ok(i) => i, Err(_) => 0 };
    let style = if any_bool() { bold_idx } else { 0 };
    let k = any_u8();
    assume(k < if with_quoted { 6 } else { 5 });
    let cell = if k == 0 { Cell::NumberCell { v: 1.5, s: style } }
        else if k == 1 { Cell::BooleanCell { v: true, s: style } }
        else if k == 2 { Cell::SharedString { si: 0, s: style } }
        else if k == 3 { Cell::NumberCell { v: 123.0, s: style } }
        else if k == 4 { Cell::EmptyCell { s: style } }
        else { Cell::SharedString { si: 1, s: quoted_idx } };
    let mut row: HashMap<i32, Cell> = HashMap::new();
    row.insert(c, cell.clone());
    ws.sheet_data.insert(r, row);
    // a styled column and a styled row somewhere: a cell landing there must keep its own style
    ws.cols = vec![Col { min: any_col_index(), max: LAST_COLUMN, width: 10.0, custom_width: false, hidden: false, style: Some(bold_idx) }];
    assume(ws.cols[0].min <= ws.cols[0].max);
    wb.worksheets = vec![ws];
    Pre { model: model_from_workbook(wb), cell, r, c }
}
fn cell_at(m: &Model, r: i32, c: i32) -> Option<Cell> {
    match m.workbook.worksheets[0].sheet_data.get(&r) { Some(row) => row.get(&c).cloned(), None => None }
}
fn cell_count(m: &Model) -> usize {
    let mut n = 0;
    for (_, row) in m.workbook.worksheets[0].sheet_data.iter() { n += row.len(); }
    n
}

fn insert_rows_case(de: bool, id: &'static str) {
    let mut p = any_pre(de, true);
    let (at, k) = (any_row_index(), any_i32_in(1, LAST_ROW));
    if p.model.insert_rows(0, at, k).is_ok() {
        check(id, (cell_at(&p.model, pi_insert(p.r, at, k), p.c) == Some(p.cell.clone())) & (cell_count(&p.model) == 1));
    }
}
pub fn h_c12_cells_insert_rows() { insert_rows_case(false, "C12.cells_insert_rows.content_type_style_kept"); reach("C12.cells_insert_rows"); }
pub fn h_c12_cells_insert_rows_de() { insert_rows_case(true, "C12.cells_insert_rows_de.content_type_style_kept"); reach("C12.cells_insert_rows_de"); }

pub fn h_c12_cells_insert_columns() {
    let mut p = any_pre(false, true);
    let (at, k) = (any_col_index(), any_i32_in(1, LAST_COLUMN));
    if p.model.insert_columns(0, at, k).is_ok() {
        check("C12.cells_insert_columns.content_type_style_kept", (cell_at(&p.model, p.r, pi_insert(p.c, at, k)) == Some(p.cell.clone())) & (cell_count(&p.model) == 1));
    }
    reach("C12.cells_insert_columns");
}

/// quote-prefixed text that looks like a number
pub fn h_c12_cells_quoted_text() {
    let mut p = any_pre(false, true);
    let (at, k) = (any_row_index(), any_i32_in(1, LAST_ROW));
    if p.model.insert_rows(0, at, k).is_ok() {
        check("C12.cells_quoted_text.stays_text", cell_at(&p.model, pi_insert(p.r, at, k), p.c) == Some(p.cell.clone()));
    }
    reach("C12.cells_quoted_text");
}

fn delete_rows_case(de: bool, id: &'static str) {
    let mut p = any_pre(de, true);
    let (at, k) = (any_row_index(), any_i32_in(1, LAST_ROW));
    if p.model.delete_rows(0, at, k).is_ok() {
        match pi_delete(p.r, at, k) {
            Some(nr) => check(id, (cell_at(&p.model, nr, p.c) == Some(p.cell.clone())) & (cell_count(&p.model) == 1)),
            None => check(id, cell_count(&p.model) == 0),
        }
    }
}
pub fn h_c13_cells_delete_rows() { delete_rows_case(false, "C13.cells_delete_rows.content_type_style_kept"); reach("C13.cells_delete_rows"); }
pub fn h_c13_cells_delete_rows_de() { delete_rows_case(true, "C13.cells_delete_rows_de.content_type_style_kept"); reach("C13.cells_delete_rows_de"); }

pub fn h_c13_cells_delete_columns() {
    let mut p = any_pre(false, true);
    let (at, k) = (any_col_index(), any_i32_in(1, LAST_COLUMN));
    if p.model.delete_columns(0, at, k).is_ok() {
        match pi_delete(p.c, at, k) {
            Some(nc) => check("C13.cells_delete_columns.content_type_style_kept", (cell_at(&p.model, p.r, nc) == Some(p.cell.clone())) & (cell_count(&p.model) == 1)),
            None => check("C13.cells_delete_columns.content_type_style_kept", cell_count(&p.model) == 0),
        }
    }
    reach("C13.cells_delete_columns");
}

pub fn h_c14_cells_insert_delete_columns() {
    let mut p = any_pre(false, true);
    let (at, k) = (any_col_index(), any_i32_in(1, LAST_COLUMN));
    if p.model.insert_columns(0, at, k).is_ok() && p.model.delete_columns(0, at, k).is_ok() {
        check("C14.cells_columns.identity", (cell_at(&p.model, p.r, p.c) == Some(p.cell.clone())) & (cell_count(&p.model) == 1));
    }
    reach("C14.cells_columns");
}
pub fn h_c14_cells_insert_delete_rows() {
    let mut p = any_pre(false, true);
    let (at, k) = (any_row_index(), any_i32_in(1, LAST_ROW));
    if p.model.insert_rows(0, at, k).is_ok() && p.model.delete_rows(0, at, k).is_ok() {
        check("C14.cells_rows.identity", (cell_at(&p.model, p.r, p.c) == Some(p.cell.clone())) & (cell_count(&p.model) == 1));
    }
    reach("C14.cells_rows");
}

pub fn h_c15_cells_move_rows() {
    let mut p = any_pre(false, true);
    let (m, n, d) = (any_row_index(), any_i32_in(1, 2), any_i32_in(-2, 2));
    assume(d != 0);
    if p.model.move_rows_action(0, m, n, d).is_ok() {
        check("C15.cells_move_rows.content_type_style_kept", (cell_at(&p.model, sigma_block(p.r, m, n, d), p.c) == Some(p.cell.clone())) & (cell_count(&p.model) == 1));
    }
    reach("C15.cells_move_rows");
}
pub fn h_c15_cells_move_columns() {
    let mut p = any_pre(false, true);
    let (m, d) = (any_col_index(), any_i32_in(-1, 1));
    assume(d != 0);
    if p.model.move_columns_action(0, m, 1, d).is_ok() {
        check("C15.cells_move_columns.content_type_style_kept", (cell_at(&p.model, p.r, sigma_block(p.c, m, 1, d)) == Some(p.cell.clone())) & (cell_count(&p.model) == 1));
    }
    reach("C15.cells_move_columns");
}
