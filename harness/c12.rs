//@parent expressions::parser
//! C12 / C13 / C14 / C15 - reference rewriting under structural edits (stringify_reference) against the
//! edit maps the properties state.  The printed reference is read back with the real parse_reference_a1.
use super::stringify::{stringify_reference, DisplaceData};
use super::Reference;
use crate::constants::{LAST_COLUMN, LAST_ROW};
use crate::verif::rt::*;
use crate::verif::st::*;
use crate::expressions::types::CellReferenceRC;

struct R { abs_row: bool, abs_col: bool, row: i32, col: i32 }

/// a reference node as the parser stores it (offsets for relative parts) designating in-grid (row, col)
/// when read at an in-grid context cell
fn any_ref() -> (R, CellReferenceRC, i32, i32) {
    let ctx = CellReferenceRC { sheet: "S".to_string(), row: any_i32_in(1, LAST_ROW), column: any_i32_in(1, LAST_COLUMN) };
    let row = any_i32_in(1, LAST_ROW);
    let col = any_i32_in(1, LAST_COLUMN);
    let (abs_row, abs_col) = (any_bool(), any_bool());
    let r = R { abs_row, abs_col, row: if abs_row { row } else { row - ctx.row }, col: if abs_col { col } else { col - ctx.column } };
    (r, ctx, row, col)
}

fn print(r: &R, ctx: &CellReferenceRC, sheet_index: u32, d: &DisplaceData) -> String {
    let reference = Reference { sheet_name: &None, sheet_index, absolute_row: r.abs_row, absolute_column: r.abs_col, row: r.row, column: r.col };
    stringify_reference(Some(ctx), d, &reference, false, false)
}

/// the printed text designates (row, col) with the same $ flags: it is exactly what the same printer
/// emits, with no edit, for the reference node that designates (row, col) from the same context cell
fn designates(s: &str, r: &R, ctx: &CellReferenceRC, row: i32, col: i32) -> bool {
    let moved = R { abs_row: r.abs_row, abs_col: r.abs_col,
                    row: if r.abs_row { row } else { row - ctx.row }, col: if r.abs_col { col } else { col - ctx.column } };
    let want = print(&moved, ctx, 0, &DisplaceData::None);
    want != "#REF!" && s == want
}

pub fn h_c12_ref_insert_rows() {
    let (r, ctx, row, col) = any_ref();
    let (sheet, s2) = (any_u32(), any_u32());
    let p = any_i32_in(1, LAST_ROW);
    let k = any_i32_in(1, LAST_ROW);
    let s = print(&r, &ctx, sheet, &DisplaceData::Row { sheet: s2, row: p, delta: k });
    let nrow = if sheet == s2 { pi_insert(row, p, k) } else { row };
    if nrow <= LAST_ROW {
        check("C12.ref_rows.follows_cell", designates(&s, &r, &ctx, nrow, col));
    } else {
        check("C12.ref_rows.off_grid_is_ref_error", s == "#REF!");
    }
    reach("C12.ref_rows");
}

pub fn h_c12_ref_insert_columns() {
    let (r, ctx, row, col) = any_ref();
    let (sheet, s2) = (any_u32(), any_u32());
    let p = any_i32_in(1, LAST_COLUMN);
    let k = any_i32_in(1, LAST_COLUMN);
    let s = print(&r, &ctx, sheet, &DisplaceData::Column { sheet: s2, column: p, delta: k });
    let ncol = if sheet == s2 { pi_insert(col, p, k) } else { col };
    if ncol <= LAST_COLUMN {
        check("C12.ref_cols.follows_cell", designates(&s, &r, &ctx, row, ncol));
    } else {
        check("C12.ref_cols.off_grid_is_ref_error", s == "#REF!");
    }
    reach("C12.ref_cols");
}

pub fn h_c13_ref_delete_rows() {
    let (r, ctx, row, col) = any_ref();
    let (sheet, s2) = (any_u32(), any_u32());
    let p = any_i32_in(1, LAST_ROW);
    let k = any_i32_in(1, LAST_ROW);
    let s = print(&r, &ctx, sheet, &DisplaceData::Row { sheet: s2, row: p, delta: -k });
    let nrow = if sheet == s2 { pi_delete(row, p, k) } else { Some(row) };
    match nrow {
        Some(n) => check("C13.ref_rows.follows_cell", designates(&s, &r, &ctx, n, col)),
        None => check("C13.ref_rows.deleted_is_ref_error", s == "#REF!"),
    }
    reach("C13.ref_rows");
}

pub fn h_c13_ref_delete_columns() {
    let (r, ctx, row, col) = any_ref();
    let (sheet, s2) = (any_u32(), any_u32());
    let p = any_i32_in(1, LAST_COLUMN);
    let k = any_i32_in(1, LAST_COLUMN);
    let s = print(&r, &ctx, sheet, &DisplaceData::Column { sheet: s2, column: p, delta: -k });
    let ncol = if sheet == s2 { pi_delete(col, p, k) } else { Some(col) };
    match ncol {
        Some(n) => check("C13.ref_cols.follows_cell", designates(&s, &r, &ctx, row, n)),
        None => check("C13.ref_cols.deleted_is_ref_error", s == "#REF!"),
    }
    reach("C13.ref_cols");
}

pub fn h_c15_ref_move_row() {
    let (r, ctx, row, col) = any_ref();
    let (sheet, s2) = (any_u32(), any_u32());
    let m = any_i32_in(1, LAST_ROW);
    let d = any_i32_in(-LAST_ROW, LAST_ROW);
    assume((d != 0) & (1 <= m + d) & (m + d <= LAST_ROW));
    let s = print(&r, &ctx, sheet, &DisplaceData::RowMove { sheet: s2, row: m, delta: d });
    let nrow = if sheet == s2 { sigma_move(row, m, d) } else { row };
    check("C15.ref_row_move.follows_cell", designates(&s, &r, &ctx, nrow, col));
    reach("C15.ref_row_move");
}

pub fn h_c15_ref_move_column() {
    let (r, ctx, row, col) = any_ref();
    let (sheet, s2) = (any_u32(), any_u32());
    let m = any_i32_in(1, LAST_COLUMN);
    let d = any_i32_in(-LAST_COLUMN, LAST_COLUMN);
    assume((d != 0) & (1 <= m + d) & (m + d <= LAST_COLUMN));
    let s = print(&r, &ctx, sheet, &DisplaceData::ColumnMove { sheet: s2, column: m, delta: d });
    let ncol = if sheet == s2 { sigma_move(col, m, d) } else { col };
    check("C15.ref_col_move.follows_cell", designates(&s, &r, &ctx, row, ncol));
    reach("C15.ref_col_move");
}
