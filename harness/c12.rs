//@parent expressions::parser
//! C12 / C13 / C14 / C15 - reference rewriting under structural edits (stringify_reference) against the
//! edit maps the properties state.  The printed reference is read back with the real parse_reference_a1.
use super::stringify::{stringify_reference, DisplaceData};
use super::Reference;
use crate::constants::{LAST_COLUMN, LAST_ROW};
use crate::verif::rt::*;
use crate::verif::st::*;
use crate::expressions::types::CellReferenceRC;

struct R { abs_row: bool, abs_col: bool, row: i32, col: i32 }

/// a reference node as the parser stores it (offsets for relative parts) designating in-grid (row, col)
/// when read at an in-grid context cell
fn any_ref() -> (R, CellReferenceRC, i32, i32) {
    let ctx = CellReferenceRC { sheet: "S".to_string(), row: any_i32_in(1, LAST_ROW), column: any_i32_in(1, LAST_COLUMN) };
    let row = any_i32_in(1, LAST_ROW);
    let col = any_i32_in(1, LAST_COLUMN);
    let (abs_row, abs_col) = (any_bool(), any_bool());
    let r = R { abs_row, abs_col, row: if abs_row { row } else { row - ctx.row }, col: if abs_col { col } else { col - ctx.column } };
    (r, ctx, row, col)
}

fn print(r: &R, ctx: &CellReferenceRC, sheet_index: u32, d: &DisplaceData) -> String {
    let reference = Reference { sheet_name: &None, sheet_index, absolute_row: r.abs_row, absolute_column: r.abs_col, row: r.row, column: r.col };
    stringify_reference(Some(ctx), d, &reference, false, false)
}

/// the printed text designates (row, col) with the same $ flags: it is exactly what the same printer
/// emits, with no edit, for the reference node that designates (row, col) from the same context cell
fn designates(s: &str, r: &R, ctx: &CellReferenceRC, row: i32, col: i32) -> bool {
    let moved = R { abs_row: r.abs_row, abs_col: r.abs_col,
                    row: if r.abs_row { row } else { row - ctx.row }, col: if r.abs_col { col } else { col - ctx.column } };
    let want = print(&moved, ctx, 0, &DisplaceData::None);
    want != "#REF!" && s == want
}

pub fn h_c12_ref_insert_rows() {
    let (r, ctx, row, col) = any_ref();
    let (sheet, s2) = (any_u32(), any_u32());
    let p = any_i32_in(1, LAST_ROW);
    let k = any_i32_in(1, LAST_ROW);
    let s = print(&r, &ctx, sheet, &DisplaceData::Row { sheet: s2, row: p, delta: k });
    let nrow = if sheet == s2 { pi_insert(row, p, k) } else { row };
    if nrow <= LAST_ROW {
        check("C12.ref_rows.follows_cell", designates(&s, &r, &ctx, nrow, col));
    } else {
        check("C12.ref_rows.off_grid_is_ref_error", s == "#REF!");
    }
    reach("C12.ref_rows");
}

pub fn h_c12_ref_insert_columns() {
    let (r, ctx, row, col) = any_ref();
    let (sheet, s2) = (any_u32(), any_u32());
    let p = any_i32_in(1, LAST_COLUMN);
    let k = any_i32_in(1, LAST_COLUMN);
    let s = print(&r, &ctx, sheet, &DisplaceData::Column { sheet: s2, column: p, delta: k });
    let ncol = if sheet == s2 { pi_insert(col, p, k) } else { col };
    if ncol <= LAST_COLUMN {
        check("C12.ref_cols.follows_cell", designates(&s, &r, &ctx, row, ncol));
    } else {
        check("C12.ref_cols.off_grid_is_ref_error", s == "#REF!");
    }
    reach("C12.ref_cols");
}

pub fn h_c13_ref_delete_rows() {
    let (r, ctx, row, col) = any_ref();
    let (sheet, s2) = (any_u32(), any_u32());
    let p = any_i32_in(1, LAST_ROW);
    let k = any_i32_in(1, LAST_ROW);
    let s = print(&r, &ctx, sheet, &DisplaceData::Row { sheet: s2, row: p, delta: -k });
    let nrow = if sheet == s2 { pi_delete(row, p, k) } else { Some(row) };
    match nrow {
        Some(n) => check("C13.ref_rows.follows_cell", designates(&s, &r, &ctx, n, col)),
        None => check("C13.ref_rows.deleted_is_ref_error", s == "#REF!"),
    }
    reach("C13.ref_rows");
}

pub fn h_c13_ref_delete_columns() {
    let (r, ctx, row, col) = any_ref();
    let (sheet, s2) = (any_u32(), any_u32());
    let p = any_i32_in(1, LAST_COLUMN);
    let k = any_i32_in(1, LAST_COLUMN);
    let s = print(&r, &ctx, sheet, &DisplaceData::Column { sheet: s2, column: p, delta: -k });
    let ncol = if sheet == s2 { pi_delete(col, p, k) } else { Some(col) };
    match ncol {
        Some(n) => check("C13.ref_cols.follows_cell", designates(&s, &r, &ctx, row, n)),
        None => check("C13.ref_cols.deleted_is_ref_error", s == "#REF!"),
    }
    reach("C13.ref_cols");
}

pub fn h_c15_ref_move_row() {
    let (r, ctx, row, col) = any_ref();
    let (sheet, s2) = (any_u32(), any_u32());
    let m = any_i32_in(1, LAST_ROW);
    let d = any_i32_in(-LAST_ROW, LAST_ROW);
    assume((d != 0) & (1 <= m + d) & (m + d <= LAST_ROW));
    let s = print(&r, &ctx, sheet, &DisplaceData::RowMove { sheet: s2, row: m, delta: d });
    let nrow = if sheet == s2 { sigma_move(row, m, d) } else { row };
    check("C15.ref_row_move.follows_cell", designates(&s, &r, &ctx, nrow, col));
    reach("C15.ref_row_move");
}

pub fn h_c15_ref_move_column() {
    let (r, ctx, row, col) = any_ref();
    let (sheet, s2) = (any_u32(), any_u32());
    let m = any_i32_in(1, LAST_COLUMN);
    let d = any_i32_in(-LAST_COLUMN, LAST_COLUMN);
    assume((d != 0) & (1 <= m + d) & (m + d <= LAST_COLUMN));
    let s = print(&r, &ctx, sheet, &DisplaceData::ColumnMove { sheet: s2, column: m, delta: d });
    let ncol = if sheet == s2 { sigma_move(col, m, d) } else { col };
    check("C15.ref_col_move.follows_cell", designates(&s, &r, &ctx, row, ncol));
    reach("C15.ref_col_move");
}

// ---------------------------------------------------------------------------------------------
// Ranges: the real tree printer (`to_string_displaced` -> `stringify`) on a `Node::RangeKind` with symbolic
// corners.  Both corners follow the edit map (so a range whose interior receives the new lines grows), a
// corner on a deleted line is #REF!, and whole-column / whole-row ranges (A:B, 3:7) stay what they are.

use super::stringify::to_string_displaced;
use super::Node;
use crate::language::get_default_language;
use crate::locale::get_default_locale;

struct Rg { a: R, b: R, r1: i32, c1: i32, r2: i32, c2: i32, whole_cols: bool, whole_rows: bool }

/// kind 0: ordinary range with arbitrary in-grid corners; 1: whole-column range ($1..$LAST_ROW); 2: whole-row range
fn any_range(ctx: &CellReferenceRC, mr: i32, mc: i32) -> Rg {
    let kind = any_u8();
    assume(kind < 3);
    let (mut r1, mut c1, mut r2, mut c2) = (any_i32_in(1, mr), any_i32_in(1, mc), any_i32_in(1, mr), any_i32_in(1, mc));
    let (mut ar1, mut ac1, mut ar2, mut ac2) = (any_bool(), any_bool(), any_bool(), any_bool());
    if kind == 1 { r1 = 1; r2 = LAST_ROW; ar1 = true; ar2 = true; }
    if kind == 2 { c1 = 1; c2 = LAST_COLUMN; ac1 = true; ac2 = true; }
    let whole_cols = ar1 & ar2 & (r1 == 1) & (r2 == LAST_ROW);
    let whole_rows = ac1 & ac2 & (c1 == 1) & (c2 == LAST_COLUMN);
    let a = R { abs_row: ar1, abs_col: ac1, row: if ar1 { r1 } else { r1 - ctx.row }, col: if ac1 { c1 } else { c1 - ctx.column } };
    let b = R { abs_row: ar2, abs_col: ac2, row: if ar2 { r2 } else { r2 - ctx.row }, col: if ac2 { c2 } else { c2 - ctx.column } };
    Rg { a, b, r1, c1, r2, c2, whole_cols, whole_rows }
}

fn range_node(g: &Rg, sheet_index: u32) -> Node {
    Node::RangeKind { sheet_name: None, sheet_index,
        absolute_row1: g.a.abs_row, absolute_column1: g.a.abs_col, row1: g.a.row, column1: g.a.col,
        absolute_row2: g.b.abs_row, absolute_column2: g.b.abs_col, row2: g.b.row, column2: g.b.col }
}

/// expected text of one corner: printed by the corner printer with no edit at its mapped position
fn corner(r: &R, ctx: &CellReferenceRC, pos: Option<(i32, i32)>, whole_cols: bool, whole_rows: bool) -> String {
    match pos {
        None => "#REF!".to_string(),
        Some((row, col)) => {
            let moved = Reference { sheet_name: &None, sheet_index: 0, absolute_row: r.abs_row, absolute_column: r.abs_col,
                row: if r.abs_row { row } else { row - ctx.row }, column: if r.abs_col { col } else { col - ctx.column } };
            stringify_reference(Some(ctx), &DisplaceData::None, &moved, whole_cols, whole_rows)
        }
    }
}

/// the edit map on a line number: ins = true: insert k at p; ins = false: delete k at p
fn edit_map(x: i32, ins: bool, p: i32, k: i32) -> Option<i32> { if ins { Some(pi_insert(x, p, k)) } else { pi_delete(x, p, k) } }

fn range_case(d: &DisplaceData, same_sheet: bool, rows: bool, ins: bool, p: i32, k: i32, mr: i32, mc: i32, id: &'static str) {
    let ctx = CellReferenceRC { sheet: "S".to_string(), row: any_i32_in(1, mr), column: any_i32_in(1, mc) };
    let g = any_range(&ctx, mr, mc);
    let sheet = if same_sheet { 3 } else { 4 };
    let got = to_string_displaced(&range_node(&g, sheet), &ctx, d, get_default_locale(), get_default_language());
    // a whole-column range has no row part to displace (and a whole-row range no column part)
    let frozen = !same_sheet || (rows && g.whole_cols) || (!rows && g.whole_rows);
    let p1 = if frozen { Some((g.r1, g.c1)) } else if rows { edit_map(g.r1, ins, p, k).map(|r| (r, g.c1)) } else { edit_map(g.c1, ins, p, k).map(|c| (g.r1, c)) };
    let p2 = if frozen { Some((g.r2, g.c2)) } else if rows { edit_map(g.r2, ins, p, k).map(|r| (r, g.c2)) } else { edit_map(g.c2, ins, p, k).map(|c| (g.r2, c)) };
    let ok1 = match p1 { Some((r, c)) => r <= LAST_ROW && c <= LAST_COLUMN, None => true };
    let ok2 = match p2 { Some((r, c)) => r <= LAST_ROW && c <= LAST_COLUMN, None => true };
    if ok1 && ok2 {
        let want = format!("{}:{}", corner(&g.a, &ctx, p1, g.whole_cols, g.whole_rows), corner(&g.b, &ctx, p2, g.whole_cols, g.whole_rows));
        check(id, got == want);
    }
}

/// quick bound: ordinary corners, context cell, position and count inside rows 1..=120 and columns 1..=30 (A..AD);
/// whole-column / whole-row ranges always use the real grid limits.  The off-grid boundary of a single
/// corner is covered by the h_*_ref_* harnesses over the whole grid.
const QR: i32 = 120;
const QC: i32 = 30;

fn range_rows(ins: bool, mr: i32, mc: i32, id: &'static str) {
    let (p, k, same) = (any_i32_in(1, mr), any_i32_in(1, mr), any_bool());
    range_case(&DisplaceData::Row { sheet: 3, row: p, delta: if ins { k } else { -k } }, same, true, ins, p, k, mr, mc, id);
}
fn range_cols(ins: bool, mr: i32, mc: i32, id: &'static str) {
    let (p, k, same) = (any_i32_in(1, mc), any_i32_in(1, mc), any_bool());
    range_case(&DisplaceData::Column { sheet: 3, column: p, delta: if ins { k } else { -k } }, same, false, ins, p, k, mr, mc, id);
}
pub fn h_c12_range_insert_rows() { range_rows(true, QR, QC, "C12.range_rows.corners_follow"); reach("C12.range_rows"); }
pub fn h_c12_range_insert_columns() { range_cols(true, QR, QC, "C12.range_cols.corners_follow"); reach("C12.range_cols"); }
pub fn h_c13_range_delete_rows() { range_rows(false, QR, QC, "C13.range_rows.corners_follow"); reach("C13.range_rows"); }
pub fn h_c13_range_delete_columns() { range_cols(false, QR, QC, "C13.range_cols.corners_follow"); reach("C13.range_cols"); }
pub fn ht_c12_range_insert_rows_grid() { range_rows(true, LAST_ROW, QC, "C12.range_rows.corners_follow"); reach("C12.range_rows_grid"); }
pub fn ht_c12_range_insert_columns_grid() { range_cols(true, QR, LAST_COLUMN, "C12.range_cols.corners_follow"); reach("C12.range_cols_grid"); }
pub fn ht_c13_range_delete_rows_grid() { range_rows(false, LAST_ROW, QC, "C13.range_rows.corners_follow"); reach("C13.range_rows_grid"); }
pub fn ht_c13_range_delete_columns_grid() { range_cols(false, QR, LAST_COLUMN, "C13.range_cols.corners_follow"); reach("C13.range_cols_grid"); }
