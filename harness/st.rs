//! Symbolic pre-state builders shared by the harnesses.
#![allow(dead_code)]
use super::rt::*;
use crate::constants::{LAST_COLUMN, LAST_ROW};
use crate::types::*;
use std::collections::HashMap;

pub const MAX_W: f64 = 1.0e6;

pub fn empty_sheet(name: &str, sheet_id: u32) -> Worksheet {
    let mut views = HashMap::new();
    views.insert(0u32, WorksheetView { row: 1, column: 1, range: [1, 1, 1, 1], top_row: 1, left_column: 1 });
    Worksheet {
        cols: vec![],
        rows: vec![],
        comments: vec![],
        dimension: "A1".to_string(),
        merge_cells: vec![],
        name: name.to_string(),
        shared_formulas: vec![],
        sheet_data: HashMap::new(),
        sheet_id,
        state: SheetState::Visible,
        color: Color::None,
        frozen_columns: 0,
        frozen_rows: 0,
        show_grid_lines: true,
        views,
        conditional_formatting: vec![],
        links: HashMap::new(),
    }
}

/// stored (Excel-unit) width: finite, 0 ..= MAX_W
pub fn any_width() -> f64 { let w = any_f64(); assume(w >= 0.0 && w <= MAX_W); w }

/// up to `max` column descriptors: sorted, disjoint, inside the grid (the representation invariant)
pub fn any_cols(max: usize) -> Vec<Col> {
    let n = any_usize_to(max);
    let mut cols: Vec<Col> = Vec::new();
    let mut prev = 0;
    let mut i = 0;
    while i < n {
        let min = any_i32();
        let mx = any_i32();
        assume(prev < min && min <= mx && mx <= LAST_COLUMN);
        prev = mx;
        cols.push(Col { min, max: mx, width: any_width(), custom_width: any_bool(), hidden: any_bool(), style: any_opt_i32() });
        i += 1;
    }
    cols
}

/// up to `max` row records with pairwise distinct in-grid row numbers
pub fn any_rows(max: usize) -> Vec<Row> {
    let n = any_usize_to(max);
    let mut rows: Vec<Row> = Vec::new();
    let mut i = 0;
    while i < n {
        let r = any_i32();
        assume(1 <= r && r <= LAST_ROW);
        let mut j = 0;
        while j < rows.len() { assume(rows[j].r != r); j += 1; }
        rows.push(Row { r, height: any_width(), custom_format: any_bool(), custom_height: any_bool(), s: any_i32(), hidden: any_bool() });
        i += 1;
    }
    rows
}

pub fn sheet_with(cols: Vec<Col>, rows: Vec<Row>) -> Worksheet {
    let mut ws = empty_sheet("Sheet1", 1);
    ws.cols = cols;
    ws.rows = rows;
    ws
}

pub fn any_col_index() -> i32 { any_i32_in(1, LAST_COLUMN) }
pub fn any_row_index() -> i32 { any_i32_in(1, LAST_ROW) }

/// representation invariant of column descriptors
pub fn cols_well_formed(cols: &[Col]) -> bool {
    let mut prev = 0;
    let mut i = 0;
    while i < cols.len() {
        let c = &cols[i];
        if !(prev < c.min && c.min <= c.max && c.max <= LAST_COLUMN) { return false; }
        prev = c.max;
        i += 1;
    }
    true
}

pub fn rows_well_formed(rows: &[Row]) -> bool {
    let mut i = 0;
    while i < rows.len() {
        if !(1 <= rows[i].r && rows[i].r <= LAST_ROW) { return false; }
        let mut j = i + 1;
        while j < rows.len() { if rows[j].r == rows[i].r { return false; } j += 1; }
        i += 1;
    }
    true
}

// ---------------------------------------------------------------------------------------------
// the edit maps on line numbers, written from the property statements (C12, C13, C15)

/// insert k lines at p: lines at or after p move down by k
pub fn pi_insert(x: i32, p: i32, k: i32) -> i32 { if x >= p { x + k } else { x } }
/// delete k lines at p: the band [p, p+k) disappears, later lines move up by k
pub fn pi_delete(x: i32, p: i32, k: i32) -> Option<i32> {
    if x < p { Some(x) } else if x < p + k { None } else { Some(x - k) }
}
/// move line m by d: m lands on m+d, the lines in between shift by one the other way
pub fn sigma_move(x: i32, m: i32, d: i32) -> i32 {
    if x == m { m + d }
    else if d > 0 && m < x && x <= m + d { x - 1 }
    else if d < 0 && m + d <= x && x < m { x + 1 }
    else { x }
}
