//! Symbolic pre-state builders shared by the harnesses.
#![allow(dead_code)]
use super::rt::*;
use crate::constants::{LAST_COLUMN, LAST_ROW};
use crate::types::*;
use std::collections::HashMap;

pub const MAX_W: f64 = 1.0e6;

pub fn empty_sheet(name: &str, sheet_id: u32) -> Worksheet {
    let mut views = HashMap::new();
    views.insert(0u32, WorksheetView { row: 1, column: 1, range: [1, 1, 1, 1], top_row: 1, left_column: 1 });
    Worksheet {
        cols: vec![],
        rows: vec![],
        comments: vec![],
        dimension: "A1".to_string(),
        merge_cells: vec![],
        name: name.to_string(),
        shared_formulas: vec![],
        sheet_data: HashMap::new(),
        sheet_id,
        state: SheetState::Visible,
        color: Color::None,
        frozen_columns: 0,
        frozen_rows: 0,
        show_grid_lines: true,
        views,
        conditional_formatting: vec![],
        links: HashMap::new(),
    }
}

/// stored (Excel-unit) width: finite, 0 ..= MAX_W
pub fn any_width() -> f64 { let w = any_f64(); assume((w >= 0.0) & (w <= MAX_W)); w }

/// up to `max` column descriptors: sorted, disjoint, inside the grid (the representation invariant)
pub fn any_cols(max: usize) -> Vec<Col> {
    let n = any_usize_to(max);
    let mut cols: Vec<Col> = Vec::new();
    let mut prev = 0;
    let mut i = 0;
    while i < n {
        let min = any_i32();
        let mx = any_i32();
        assume((prev < min) & (min <= mx) & (mx <= LAST_COLUMN));
        prev = mx;
        cols.push(Col { min, max: mx, width: any_width(), custom_width: any_bool(), hidden: any_bool(), style: any_opt_i32() });
        i += 1;
    }
    cols
}

/// up to `max` row records with pairwise distinct in-grid row numbers
pub fn any_rows(max: usize) -> Vec<Row> {
    let n = any_usize_to(max);
    let mut rows: Vec<Row> = Vec::new();
    let mut i = 0;
    while i < n {
        let r = any_i32();
        assume((1 <= r) & (r <= LAST_ROW));
        let mut j = 0;
        while j < rows.len() { assume(rows[j].r != r); j += 1; }
        rows.push(Row { r, height: any_width(), custom_format: any_bool(), custom_height: any_bool(), s: any_i32(), hidden: any_bool() });
        i += 1;
    }
    rows
}

/// as `any_cols`, but descriptor i has the concrete width FIXED_W[i] (Excel units).  For code that does
/// float arithmetic on widths (pixels = units * 9, units = pixels / 9): these values round-trip exactly,
/// and they are pairwise distinct so that a width taken from the wrong descriptor is noticed.
pub const FIXED_W: [f64; 4] = [8.0, 13.0, 21.0, 34.0];
pub fn any_cols_fixed_w(max: usize) -> Vec<Col> {
    let mut cols = any_cols(max);
    let mut i = 0;
    while i < cols.len() { cols[i].width = FIXED_W[i]; i += 1; }
    cols
}

pub fn any_rows_fixed_h(max: usize) -> Vec<Row> {
    let mut rows = any_rows(max);
    let mut i = 0;
    while i < rows.len() { rows[i].height = FIXED_W[i]; i += 1; }
    rows
}

pub fn sheet_with(cols: Vec<Col>, rows: Vec<Row>) -> Worksheet {
    let mut ws = empty_sheet("Sheet1", 1);
    ws.cols = cols;
    ws.rows = rows;
    ws
}

pub fn any_col_index() -> i32 { any_i32_in(1, LAST_COLUMN) }
pub fn any_row_index() -> i32 { any_i32_in(1, LAST_ROW) }

/// representation invariant of column descriptors
pub fn cols_well_formed(cols: &[Col]) -> bool {
    let mut prev = 0;
    let mut i = 0;
    while i < cols.len() {
        let c = &cols[i];
        if !(prev < c.min && c.min <= c.max && c.max <= LAST_COLUMN) { return false; }
        prev = c.max;
        i += 1;
    }
    true
}

pub fn rows_well_formed(rows: &[Row]) -> bool {
    let mut i = 0;
    while i < rows.len() {
        if !(1 <= rows[i].r && rows[i].r <= LAST_ROW) { return false; }
        let mut j = i + 1;
        while j < rows.len() { if rows[j].r == rows[i].r { return false; } j += 1; }
        i += 1;
    }
    true
}

// ---------------------------------------------------------------------------------------------
// the edit maps on line numbers, written from the property statements (C12, C13, C15)

/// insert k lines at p: lines at or after p move down by k
pub fn pi_insert(x: i32, p: i32, k: i32) -> i32 { if x >= p { x + k } else { x } }
/// delete k lines at p: the band [p, p+k) disappears, later lines move up by k
pub fn pi_delete(x: i32, p: i32, k: i32) -> Option<i32> {
    if x < p { Some(x) } else if x < p + k { None } else { Some(x - k) }
}
/// move line m by d: m lands on m+d, the lines in between shift by one the other way
pub fn sigma_move(x: i32, m: i32, d: i32) -> i32 {
    if x == m { m + d }
    else if d > 0 && m < x && x <= m + d { x - 1 }
    else if d < 0 && m + d <= x && x < m { x + 1 }
    else { x }
}

// ---------------------------------------------------------------------------------------------
// Model / UserModel pre-states (workbooks WITHOUT formulas, defined names, tables or CF rules)

use crate::model::Model;
use crate::user_model::UserModel;

pub fn workbook_with(worksheets: Vec<Worksheet>, selected_sheet: u32) -> Workbook {
    let mut views = HashMap::new();
    views.insert(0u32, WorkbookView { sheet: selected_sheet, window_width: 800, window_height: 600 });
    Workbook {
        shared_strings: vec![],
        defined_names: vec![],
        worksheets,
        styles: Styles { num_fmts: vec![], fonts: vec![], fills: vec![], borders: vec![], cell_style_xfs: vec![],
                         cell_xfs: vec![], cell_styles: vec![], dxfs: vec![] },
        name: "wb".to_string(),
        settings: WorkbookSettings { tz: "UTC".to_string(), locale: "en".to_string() },
        metadata: Metadata { application: String::new(), app_version: String::new(), creator: String::new(),
                             last_modified_by: String::new(), created: String::new(), last_modified: String::new() },
        tables: HashMap::new(),
        views,
        theme: Theme::default(),
    }
}

/// `Model::from_workbook(wb, "en")`.  Under mirsym this is the construction intercept of DESIGN 3.3:
/// the same workbook, empty caches, opaque parser/locale/language.
#[cfg(verif_replay)]
pub fn model_from_workbook(wb: Workbook) -> Model<'static> { Model::from_workbook(wb, "en").expect("from_workbook") }
#[cfg(not(verif_replay))]
pub fn model_from_workbook(wb: Workbook) -> Model<'static> { vrt_model_from_workbook(wb) }
#[cfg(not(verif_replay))]
#[inline(never)]
pub fn vrt_model_from_workbook(wb: Workbook) -> Model<'static> { Model::from_workbook(std::hint::black_box(wb), "en").unwrap() }

pub fn user_model_paused(wb: Workbook) -> UserModel<'static> {
    let mut um = UserModel::from_model(model_from_workbook(wb));
    um.pause_evaluation();
    um
}

/// up to `max` hyperlinks at pairwise distinct in-grid cells; link i is recognisable by its location text
pub fn any_links(max: usize) -> HashMap<(i32, i32), Link> {
    let n = any_usize_to(max);
    let mut m: HashMap<(i32, i32), Link> = HashMap::new();
    let mut keys: Vec<(i32, i32)> = Vec::new();
    let mut i = 0;
    while i < n {
        let r = any_row_index();
        let c = any_col_index();
        let mut j = 0;
        while j < keys.len() { assume(keys[j] != (r, c)); j += 1; }
        keys.push((r, c));
        let loc = if i == 0 { "L0" } else if i == 1 { "L1" } else { "L2" };
        m.insert((r, c), Link::Internal { location: loc.to_string(), tooltip: None });
        i += 1;
    }
    m
}

/// stored record of column `c` as (width bits compare-able, custom_width, hidden, style), None when no descriptor covers it
pub fn col_record(ws: &Worksheet, c: i32) -> Option<(f64, bool, bool, Option<i32>)> {
    let mut i = 0;
    while i < ws.cols.len() {
        let d = &ws.cols[i];
        if d.min <= c && c <= d.max { return Some((d.width, d.custom_width, d.hidden, d.style)); }
        i += 1;
    }
    None
}

pub fn row_record(ws: &Worksheet, r: i32) -> Option<(f64, bool, bool, i32, bool)> {
    let mut i = 0;
    while i < ws.rows.len() {
        let d = &ws.rows[i];
        if d.r == r { return Some((d.height, d.custom_format, d.custom_height, d.s, d.hidden)); }
        i += 1;
    }
    None
}

/// sorted + pairwise disjoint (what C27 states; the grid bound is not part of it)
pub fn cols_sorted_disjoint(cols: &[Col]) -> bool {
    let mut i = 0;
    while i < cols.len() {
        if cols[i].min > cols[i].max { return false; }
        if i > 0 && cols[i - 1].max >= cols[i].min { return false; }
        i += 1;
    }
    true
}

pub fn rows_unique(rows: &[Row]) -> bool {
    let mut i = 0;
    while i < rows.len() {
        let mut j = i + 1;
        while j < rows.len() { if rows[j].r == rows[i].r { return false; } j += 1; }
        i += 1;
    }
    true
}

// ---------------------------------------------------------------------------------------------
// fork-free oracles: written with `&`/`|` on bools (no short-circuit, hence no branch on symbolic data),
// so one solver query decides the whole frame condition at a symbolic probe.

pub fn covers(d: &Col, c: i32) -> bool { (d.min <= c) & (c <= d.max) }
pub fn same_col_attrs(a: &Col, b: &Col) -> bool {
    (a.width == b.width) & (a.custom_width == b.custom_width) & (a.hidden == b.hidden) & (a.style == b.style)
}
/// what is stored for column `y` in `after` is exactly what was stored for column `x` in `before`
pub fn col_attrs_carried(before: &[Col], x: i32, after: &[Col], y: i32) -> bool {
    let (mut cov_b, mut cov_a, mut ok) = (false, false, true);
    let mut i = 0;
    while i < before.len() { cov_b |= covers(&before[i], x); i += 1; }
    let mut j = 0;
    while j < after.len() { cov_a |= covers(&after[j], y); j += 1; }
    i = 0;
    while i < before.len() {
        j = 0;
        while j < after.len() {
            ok &= !(covers(&before[i], x) & covers(&after[j], y)) | same_col_attrs(&before[i], &after[j]);
            j += 1;
        }
        i += 1;
    }
    ok & (cov_b == cov_a)
}
pub fn same_row_attrs(a: &Row, b: &Row) -> bool {
    (a.height == b.height) & (a.custom_format == b.custom_format) & (a.custom_height == b.custom_height)
        & (a.s == b.s) & (a.hidden == b.hidden)
}
/// the record of row `y` in `after` is the record row `x` had in `before` (both absent counts as equal)
pub fn row_attrs_carried(before: &[Row], x: i32, after: &[Row], y: i32) -> bool {
    let (mut cov_b, mut cov_a, mut ok) = (false, false, true);
    let mut i = 0;
    while i < before.len() { cov_b |= before[i].r == x; i += 1; }
    let mut j = 0;
    while j < after.len() { cov_a |= after[j].r == y; j += 1; }
    i = 0;
    while i < before.len() {
        j = 0;
        while j < after.len() {
            ok &= !((before[i].r == x) & (after[j].r == y)) | same_row_attrs(&before[i], &after[j]);
            j += 1;
        }
        i += 1;
    }
    ok & (cov_b == cov_a)
}
/// no row record of `after` sits on row y
pub fn no_row_record(after: &[Row], y: i32) -> bool {
    let mut ok = true;
    let mut j = 0;
    while j < after.len() { ok &= after[j].r != y; j += 1; }
    ok
}

/// the (at most one) link of the pre-state, as (row, column) of its key
pub fn link_key(links: &HashMap<(i32, i32), Link>, tag: &str) -> Option<(i32, i32)> {
    for (k, v) in links.iter() {
        if let Link::Internal { location, .. } = v { if location == tag { return Some(*k); } }
    }
    None
}

/// move the block of `n` lines starting at `m` by `d`: the block lands on m+d.., the lines in between
/// shift by the block size the other way, everything else stays (C15)
pub fn sigma_block(x: i32, m: i32, n: i32, d: i32) -> i32 {
    if m <= x && x < m + n { x + d }
    else if d > 0 && m + n <= x && x < m + n + d { x - n }
    else if d < 0 && m + d <= x && x < m { x + n }
    else { x }
}

// ---------------------------------------------------------------------------------------------
// fork-free *observable* equality of a column / row between two layouts (what the getters would show,
// not how it is stored: a descriptor with custom_width = false shows the default width whatever it stores,
// a missing descriptor shows the defaults)

const DEF_W: f64 = 10.0;   // DEFAULT_COLUMN_WIDTH / COLUMN_WIDTH_FACTOR
const DEF_H: f64 = 16.0;   // DEFAULT_ROW_HEIGHT / ROW_HEIGHT_FACTOR

fn col_shows_same(a: &Col, b: &Col) -> bool {
    (a.hidden == b.hidden) & (a.style == b.style)
        & ((a.custom_width & b.custom_width & (a.width == b.width)) | (!a.custom_width & !b.custom_width)
           | (a.custom_width & !b.custom_width & (a.width == DEF_W)) | (!a.custom_width & b.custom_width & (b.width == DEF_W)))
}
fn col_shows_defaults(a: &Col) -> bool { !a.hidden & a.style.is_none() & (!a.custom_width | (a.width == DEF_W)) }

pub fn col_obs_same(a: &[Col], x: i32, b: &[Col], y: i32) -> bool {
    let (mut cov_a, mut cov_b, mut ok) = (false, false, true);
    let mut i = 0;
    while i < a.len() { cov_a |= covers(&a[i], x); i += 1; }
    let mut j = 0;
    while j < b.len() { cov_b |= covers(&b[j], y); j += 1; }
    i = 0;
    while i < a.len() {
        ok &= !(covers(&a[i], x) & !cov_b) | col_shows_defaults(&a[i]);
        j = 0;
        while j < b.len() {
            ok &= !(covers(&a[i], x) & covers(&b[j], y)) | col_shows_same(&a[i], &b[j]);
            j += 1;
        }
        i += 1;
    }
    j = 0;
    while j < b.len() { ok &= !(covers(&b[j], y) & !cov_a) | col_shows_defaults(&b[j]); j += 1; }
    ok
}

fn row_style_same(a: &Row, b: &Row) -> bool {
    (a.custom_format & b.custom_format & (a.s == b.s)) | (!a.custom_format & !b.custom_format)
        | (a.custom_format & !b.custom_format & (a.s == 0)) | (!a.custom_format & b.custom_format & (b.s == 0))
}
fn row_shows_same(a: &Row, b: &Row) -> bool { (a.hidden == b.hidden) & (a.height == b.height) & row_style_same(a, b) }
fn row_shows_defaults(a: &Row) -> bool { !a.hidden & (a.height == DEF_H) & (!a.custom_format | (a.s == 0)) }

pub fn row_obs_same(a: &[Row], x: i32, b: &[Row], y: i32) -> bool {
    let (mut cov_a, mut cov_b, mut ok) = (false, false, true);
    let mut i = 0;
    while i < a.len() { cov_a |= a[i].r == x; i += 1; }
    let mut j = 0;
    while j < b.len() { cov_b |= b[j].r == y; j += 1; }
    i = 0;
    while i < a.len() {
        ok &= !((a[i].r == x) & !cov_b) | row_shows_defaults(&a[i]);
        j = 0;
        while j < b.len() {
            ok &= !((a[i].r == x) & (b[j].r == y)) | row_shows_same(&a[i], &b[j]);
            j += 1;
        }
        i += 1;
    }
    j = 0;
    while j < b.len() { ok &= !((b[j].r == y) & !cov_a) | row_shows_defaults(&b[j]); j += 1; }
    ok
}

// ---------------------------------------------------------------------------------------------
// a Locale value built by hand (all fields are public): the number symbols are parameters, the rest is `en`

use crate::locale::{Currency, CurrencyFormats, DateFormats, Dates, DecimalFormats, Locale, NumbersProperties, NumbersSymbols};

fn strs(v: &[&str]) -> Vec<String> { let mut out = Vec::new(); let mut i = 0; while i < v.len() { out.push(v[i].to_string()); i += 1; } out }
fn date_formats(short: &str) -> DateFormats {
    DateFormats { full: "EEEE, MMMM d, y".to_string(), long: "MMMM d, y".to_string(), medium: "MMM d, y".to_string(), short: short.to_string() }
}
pub fn locale_with(decimal: &str, group: &str) -> Locale {
    Locale {
        dates: Dates {
            day_names: strs(&["Sunday", "Monday", "Tuesday", "Wednesday", "Thursday", "Friday", "Saturday"]),
            day_names_short: strs(&["Sun", "Mon", "Tue", "Wed", "Thu", "Fri", "Sat"]),
            months: strs(&["January", "February", "March", "April", "May", "June", "July", "August", "September", "October", "November", "December"]),
            months_short: strs(&["Jan", "Feb", "Mar", "Apr", "May", "Jun", "Jul", "Aug", "Sep", "Oct", "Nov", "Dec"]),
            months_letter: strs(&["J", "F", "M", "A", "M", "J", "J", "A", "S", "O", "N", "D"]),
            date_formats: date_formats("M/d/yy"),
            time_formats: date_formats("h:mm a"),
            date_time_formats: date_formats("{1}, {0}"),
        },
        numbers: NumbersProperties {
            symbols: NumbersSymbols {
                decimal: decimal.to_string(), group: group.to_string(), list: ";".to_string(), percent_sign: "%".to_string(),
                plus_sign: "+".to_string(), minus_sign: "-".to_string(), approximately_sign: "~".to_string(), exponential: "E".to_string(),
                superscripting_exponent: "x".to_string(), per_mille: "%%".to_string(), infinity: "inf".to_string(), nan: "NaN".to_string(),
                time_separator: ":".to_string(),
            },
            decimal_formats: DecimalFormats { standard: "#,##0.###".to_string() },
            currency_formats: CurrencyFormats { standard: "$#,##0.00".to_string(), standard_alpha_next_to_number: None,
                standard_no_currency: "#,##0.00".to_string(), accounting: "$#,##0.00;($#,##0.00)".to_string(),
                accounting_alpha_next_to_number: None, accounting_no_currency: "#,##0.00;(#,##0.00)".to_string() },
        },
        currency: Currency { iso: "USD".to_string(), symbol: "$".to_string() },
    }
}

// ---------------------------------------------------------------------------------------------
// the `en` Language.  Natively the real table; under mirsym an intercept with the boolean and error names
// concrete (as printed by `h_probe_language_en`, compared natively on every run) and the function table opaque.

use crate::language::Language;
#[cfg(verif_replay)]
pub fn language_en() -> &'static Language { crate::language::get_language("en").expect("en") }
#[cfg(not(verif_replay))]
pub fn language_en() -> &'static Language { vrt_language_en() }
#[cfg(not(verif_replay))]
#[inline(never)]
pub fn vrt_language_en() -> &'static Language { std::hint::black_box(crate::language::get_language("en").unwrap()) }

/// workbook with the default style pools (cells need them) and two shared strings
pub fn workbook_with_cells(worksheets: Vec<Worksheet>) -> Workbook {
    let mut wb = workbook_with(worksheets, 0);
    wb.styles = Styles::default();
    wb.shared_strings = vec!["abc".to_string(), "123".to_string()];
    wb
}
