//@parent expressions::lexer
//! The real formula lexer (A1 mode, `en` locale built by hand, `en` language) on bounded symbolic text.
use super::{Lexer, LexerMode};
use crate::expressions::token::TokenType;
use crate::expressions::utils::quote_name;
use crate::verif::rt::*;
use crate::verif::st::*;

/// C11: the lexer returns a token (possibly Illegal) for every ASCII text, never panics; and it terminates:
/// a bounded number of next_token calls reaches EOF
fn lex_all(max: usize) {
    let text = any_ascii_string(max);
    let locale = locale_with(".", ",");
    let mut lx = Lexer::new(&text, LexerMode::A1, &locale, language_en());
    let mut n = 0;
    let mut eof = false;
    while n <= max + 1 {
        if lx.next_token() == TokenType::EOF { eof = true; break; }
        n += 1;
    }
    check("C11.lexer.reaches_eof", eof);
}
pub fn h_c11_lexer_a1() { lex_all(3); reach("C11.lexer_a1"); }

fn lex_all_r1c1(max: usize) {
    let text = any_ascii_string(max);
    let locale = locale_with(".", ",");
    let mut lx = Lexer::new(&text, LexerMode::R1C1, &locale, language_en());
    let mut n = 0;
    let mut eof = false;
    while n <= max + 1 {
        if lx.next_token() == TokenType::EOF { eof = true; break; }
        n += 1;
    }
    check("C11.lexer_r1c1.reaches_eof", eof);
}
pub fn h_c11_lexer_r1c1() { lex_all_r1c1(3); reach("C11.lexer_r1c1"); }

/// C22: every valid sheet name (printable ASCII, length <= max), quoted as the engine quotes it and followed by
/// `!A1`, is read back by the lexer as a reference into exactly that sheet
fn sheet_name_case(max: usize) {
    let name = any_ascii_string(max);
    let b = name.as_bytes();
    assume(b.len() >= 1);
    let mut i = 0;
    while i < b.len() {
        // valid sheet names: anything but \ / * ? : [ ]  (printable characters; stated bound)
        let c = b[i];
        assume((c >= 32) & (c < 127) & (c != b'\\') & (c != b'/') & (c != b'*') & (c != b'?') & (c != b':') & (c != b'[') & (c != b']'));
        i += 1;
    }
    let text = format!("{}!A1", quote_name(&name));
    let locale = locale_with(".", ",");
    let mut lx = Lexer::new(&text, LexerMode::A1, &locale, language_en());
    let ok = match lx.next_token() {
        TokenType::Reference { sheet: Some(s), row: 1, column: 1, absolute_row: false, absolute_column: false } => s == name,
        _ => false,
    };
    check("C22.sheet_name.read_back", ok && lx.next_token() == TokenType::EOF);
}
pub fn h_c22_sheet_name() { sheet_name_case(2); reach("C22.sheet_name"); }
pub fn ht_c22_sheet_name3() { sheet_name_case(3); reach("C22.sheet_name3"); }

/// names that look like something else: booleans, cell references, R1C1 references, numbers with exponents
/// (every text of length <= max over the characters T R U E F A L S C 1)
fn lookalike_case(max: usize) {
    let name = any_ascii_string(max);
    let b = name.as_bytes();
    assume(b.len() >= 1);
    let mut i = 0;
    while i < b.len() {
        let c = b[i];
        assume((c == b'T') | (c == b'R') | (c == b'U') | (c == b'E') | (c == b'F') | (c == b'A') | (c == b'L') | (c == b'S') | (c == b'C') | (c == b'1'));
        i += 1;
    }
    let text = format!("{}!A1", quote_name(&name));
    let locale = locale_with(".", ",");
    let mut lx = Lexer::new(&text, LexerMode::A1, &locale, language_en());
    let ok = match lx.next_token() {
        TokenType::Reference { sheet: Some(s), row: 1, column: 1, absolute_row: false, absolute_column: false } => s == name,
        _ => false,
    };
    check("C22.sheet_name.lookalike_read_back", ok && lx.next_token() == TokenType::EOF);
}
pub fn h_c22_sheet_name_lookalikes() { lookalike_case(5); reach("C22.sheet_name_lookalikes"); }

/// C11 (and C22): `$` + up to 10 letters + `1`: the absolute-reference path hands the whole letter run to
/// `column_to_number`; no run of letters may panic, and more than three letters are never a column
pub fn h_c11_lexer_long_column() {
    let k = any_usize_to(10);
    assume(k >= 1);
    let mut text = String::from("$");
    let mut i = 0;
    while i < k {
        let c = any_u8();
        assume((c >= b'A') & (c <= b'Z'));
        text.push(c as char);
        i += 1;
    }
    text.push('1');
    let locale = locale_with(".", ",");
    let mut lx = Lexer::new(&text, LexerMode::A1, &locale, language_en());
    let ok = match lx.next_token() {
        TokenType::Reference { .. } => k <= 3,
        _ => true,
    };
    check("C11.lexer_long_column.more_than_three_letters_is_no_column", ok);
    reach("C11.lexer_long_column");
}
