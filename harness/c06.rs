//! C06 / C05 - the evaluator on the core operators: two input cells of symbolic kind and value, one formula typed
//! through the real parser, `Model::evaluate`, and the value read back with `get_cell_value_by_index`, against
//! the coercion and error-propagation rules written out here.
use super::rt::*;
use super::st::*;
use crate::cell::CellValue;
use crate::model::Model;
use crate::types::*;
use crate::expressions::token::Error;
use std::collections::HashMap;

/// input kinds: 0 number (symbolic finite f64), 1 boolean, 2 empty (no cell), 3 the text "abc", 4 the error #N/A,
/// and for the operator harnesses 5 the empty text "" and 6 the error #DIV/0!
fn input_cell(k: u8, x: f64, b: bool) -> Option<Cell> {
    if k == 0 { Some(Cell::NumberCell { v: x, s: 0 }) }
    else if k == 1 { Some(Cell::BooleanCell { v: b, s: 0 }) }
    else if k == 2 { None }
    else if k == 3 { Some(Cell::SharedString { si: 0, s: 0 }) }
    else if k == 4 { Some(Cell::ErrorCell { ei: Error::NA, s: 0 }) }
    else if k == 5 { Some(Cell::SharedString { si: 2, s: 0 }) }
    else { Some(Cell::ErrorCell { ei: Error::DIV, s: 0 }) }
}
/// what an arithmetic operator sees: Ok(number) or Err(error text)
fn as_number(k: u8, x: f64, b: bool) -> Result<f64, &'static str> {
    if k == 0 { Ok(x) } else if k == 1 { Ok(if b { 1.0 } else { 0.0 }) } else if k == 2 { Ok(0.0) } else if k == 3 || k == 5 { Err("#VALUE!") } else if k == 4 { Err("#N/A") } else { Err("#DIV/0!") }
}

fn err(e: &str) -> CellValue { CellValue::String(e.to_string()) }

fn model_with(k1: u8, x: f64, b1: bool, k2: u8, y: f64, b2: bool, formula: &str) -> Option<Model<'static>> {
    let mut ws = empty_sheet("Sheet1", 1);
    let mut row: HashMap<i32, Cell> = HashMap::new();
    if let Some(c) = input_cell(k1, x, b1) { row.insert(1, c); }
    if let Some(c) = input_cell(k2, y, b2) { row.insert(2, c); }
    ws.sheet_data.insert(1, row);
    let mut wb = workbook_with_cells(vec![ws]);
    wb.shared_strings.push(String::new());
    let mut model = model_from_workbook(wb);
    if model.set_user_input(0, 1, 3, formula.to_string()).is_err() { return None; }
    model.evaluate();
    Some(model)
}

pub fn h_c06_add_sub() {
    let (k1, k2) = (any_u8(), any_u8());
    assume((k1 < 7) & (k2 < 7));
    let (x, y, b1, b2) = (any_f64_finite(), any_f64_finite(), any_bool(), any_bool());
    let minus = any_bool();
    let entered = model_with(k1, x, b1, k2, y, b2, if minus { "=A1-B1" } else { "=A1+B1" });
    check("C06.add_sub.entered", entered.is_some());
    let model = match entered { Some(m) => m, None => return };
    let got = model.get_cell_value_by_index(0, 1, 3);
    let ok = match (as_number(k1, x, b1), as_number(k2, y, b2)) {
        (Ok(a), Ok(b)) => {
            let r = if minus { a - b } else { a + b };
            if r.is_finite() { got == Ok(CellValue::Number(r)) } else { got == Ok(err("#NUM!")) }
        }
        // the left operand's error wins
        (Err(e), _) => got == Ok(err(e)),
        (_, Err(e)) => got == Ok(err(e)),
    };
    check("C06.add_sub.value", ok);
    reach("C06.add_sub");
}

/// numbers for the operators whose arithmetic the solver does not decide symbolically (division, decimal rounding)
const NUMS: [f64; 5] = [0.0, 1.5, -2.0, 1e200, 4.0];

/// `*` and `/` on a menu of numbers: division by zero is #DIV/0!, overflow is #NUM!
pub fn h_c06_mul_div() {
    let (k1, k2) = (any_u8(), any_u8());
    assume((k1 < 5) & (k2 < 5));
    let (i, j, b1, b2) = (any_usize_to(NUMS.len() - 1), any_usize_to(NUMS.len() - 1), any_bool(), any_bool());
    let (x, y) = (NUMS[i], NUMS[j]);
    let div = any_bool();
    let entered = model_with(k1, x, b1, k2, y, b2, if div { "=A1/B1" } else { "=A1*B1" });
    check("C06.mul_div.entered", entered.is_some());
    let model = match entered { Some(m) => m, None => return };
    let got = model.get_cell_value_by_index(0, 1, 3);
    let ok = match (as_number(k1, x, b1), as_number(k2, y, b2)) {
        (Ok(a), Ok(b)) => {
            if div && b == 0.0 { got == Ok(err("#DIV/0!")) }
            else {
                let r = if div { a / b } else { a * b };
                if r.is_finite() { got == Ok(CellValue::Number(r)) } else { got == Ok(err("#NUM!")) }
            }
        }
        (Err(e), _) => got == Ok(err(e)),
        (_, Err(e)) => got == Ok(err(e)),
    };
    check("C06.mul_div.value", ok);
    reach("C06.mul_div");
}

/// rank for cross-type comparison: numbers < text < booleans; an empty cell takes the type of the other side
/// (0, "", FALSE).  Returns the sign of compare(left, right) or an error.
fn compare_ref(k1: u8, x: f64, b1: bool, k2: u8, y: f64, b2: bool) -> Result<i32, &'static str> {
    // the left error wins
    if k1 == 4 { return Err("#N/A"); }
    if k1 == 6 { return Err("#DIV/0!"); }
    if k2 == 4 { return Err("#N/A"); }
    if k2 == 6 { return Err("#DIV/0!"); }
    let is_text = |k: u8| k == 3 || k == 5;
    // normalise empties: an empty cell takes the type of the other side (0, "", FALSE)
    let (e1, e2) = (k1 == 2, k2 == 2);
    let t1 = if k1 == 3 { "abc" } else { "" };
    let t2 = if k2 == 3 { "abc" } else { "" };
    let rank = |k: u8| if k == 0 { 0 } else if is_text(k) { 1 } else { 2 };
    let r1 = if e1 { if e2 { 0 } else { rank(k2) } } else { rank(k1) };
    let r2 = if e2 { if e1 { 0 } else { rank(k1) } } else { rank(k2) };
    if r1 != r2 { return Ok(if r1 < r2 { -1 } else { 1 }); }
    if r1 == 0 { let (a, b) = (if e1 { 0.0 } else { x }, if e2 { 0.0 } else { y }); return Ok(if a < b { -1 } else if a > b { 1 } else { 0 }); }
    if r1 == 1 { return Ok(if t1 < t2 { -1 } else if t1 > t2 { 1 } else { 0 }); }
    let (a, b) = (if e1 { false } else { b1 }, if e2 { false } else { b2 });
    Ok(if a == b { 0 } else if a { 1 } else { -1 })
}
const CMP: [&str; 6] = ["=A1=B1", "=A1<>B1", "=A1<B1", "=A1<=B1", "=A1>B1", "=A1>=B1"];

pub fn h_c06_compare() {
    let (k1, k2) = (any_u8(), any_u8());
    assume((k1 < 7) & (k2 < 7));
    let (i, j, b1, b2) = (any_usize_to(2), any_usize_to(2), any_bool(), any_bool());
    let (x, y) = (NUMS[i], NUMS[j]);
    let c = any_usize_to(CMP.len() - 1);
    let entered = model_with(k1, x, b1, k2, y, b2, CMP[c]);
    check("C06.compare.entered", entered.is_some());
    let model = match entered { Some(m) => m, None => return };
    let got = model.get_cell_value_by_index(0, 1, 3);
    let ok = match compare_ref(k1, x, b1, k2, y, b2) {
        Ok(s) => {
            let want = if c == 0 { s == 0 } else if c == 1 { s != 0 } else if c == 2 { s < 0 } else if c == 3 { s <= 0 } else if c == 4 { s > 0 } else { s >= 0 };
            got == Ok(CellValue::Boolean(want))
        }
        Err(e) => got == Ok(err(e)),
    };
    check("C06.compare.value", ok);
    reach("C06.compare");
}

/// unary minus, IF, AND/OR/NOT, SUM/COUNT/COUNTA over the two-cell range, the IS-functions and IFERROR
const FUNCS: [&str; 12] = ["=-A1", "=IF(A1,B1,7)", "=AND(A1,B1)", "=OR(A1,B1)", "=NOT(A1)", "=SUM(A1:B1)", "=COUNT(A1:B1)", "=COUNTA(A1:B1)",
                           "=ISNUMBER(A1)", "=ISTEXT(A1)", "=ISBLANK(A1)", "=IFERROR(A1,9)"];
/// a condition: Ok(bool), or Err; text is #VALUE!
fn as_bool(k: u8, x: f64, b: bool) -> Result<bool, &'static str> {
    if k == 0 { Ok(x != 0.0) } else if k == 1 { Ok(b) } else if k == 2 { Ok(false) } else if k == 3 { Err("#VALUE!") } else { Err("#N/A") }
}
fn value_of(k: u8, x: f64, b: bool) -> CellValue {
    if k == 0 { CellValue::Number(x) } else if k == 1 { CellValue::Boolean(b) } else if k == 2 { CellValue::Number(0.0) } else if k == 3 { CellValue::String("abc".to_string()) } else { err("#N/A") }
}
pub fn h_c06_functions() {
    let (k1, k2) = (any_u8(), any_u8());
    assume((k1 < 5) & (k2 < 5));
    let (x, y, b1, b2) = (any_f64_finite(), any_f64_finite(), any_bool(), any_bool());
    let f = any_usize_to(FUNCS.len() - 1);
    let entered = model_with(k1, x, b1, k2, y, b2, FUNCS[f]);
    check("C06.functions.entered", entered.is_some());
    let model = match entered { Some(m) => m, None => return };
    let got = model.get_cell_value_by_index(0, 1, 3);
    let num = |v: f64| Ok(CellValue::Number(v));
    let boolean = |v: bool| Ok(CellValue::Boolean(v));
    let want: Result<CellValue, String> = if f == 0 {
        match as_number(k1, x, b1) { Ok(a) => num(-a), Err(e) => Ok(err(e)) }
    } else if f == 1 {
        // a reference to an empty cell yields 0
        match as_bool(k1, x, b1) { Ok(true) => Ok(value_of(k2, y, b2)), Ok(false) => num(7.0), Err(e) => Ok(err(e)) }
    } else if f == 2 || f == 3 {
        // AND / OR over references, left to right: text and empty cells are ignored, an error propagates, and - as the
        // engine documents for its logical functions - the scan stops at the first FALSE (AND) / TRUE (OR), so an
        // error behind the deciding value is not seen; no logical value at all is #VALUE!
        let v1 = if k1 == 0 { Some(x != 0.0) } else if k1 == 1 { Some(b1) } else { None };
        let v2 = if k2 == 0 { Some(y != 0.0) } else if k2 == 1 { Some(b2) } else { None };
        let stop = f == 3;
        if k1 == 4 { Ok(err("#N/A")) }
        else if v1 == Some(stop) { boolean(stop) }
        else if k2 == 4 { Ok(err("#N/A")) }
        else {
            match (v1, v2) {
                (None, None) => Ok(err("#VALUE!")),
                (Some(a), None) | (None, Some(a)) => boolean(a),
                (Some(a), Some(b)) => boolean(if f == 2 { a && b } else { a || b }),
            }
        }
    } else if f == 4 {
        match as_bool(k1, x, b1) { Ok(v) => boolean(!v), Err(e) => Ok(err(e)) }
    } else if f == 5 {
        // SUM over a range: only numbers count, errors propagate
        if k1 == 4 || k2 == 4 { Ok(err("#N/A")) } else {
            // the running total starts from 0 and takes the numbers in order
            let mut s = 0.0;
            if k1 == 0 { s += x; }
            if k2 == 0 { s += y; }
            if s.is_finite() { num(s) } else { Ok(err("#NUM!")) }
        }
    } else if f == 6 {
        num(((k1 == 0) as i32 + (k2 == 0) as i32) as f64)
    } else if f == 7 {
        num(((k1 != 2) as i32 + (k2 != 2) as i32) as f64)
    } else if f == 8 { boolean(k1 == 0) }
    else if f == 9 { boolean(k1 == 3) }
    else if f == 10 { boolean(k1 == 2) }
    else { if k1 == 4 { num(9.0) } else { Ok(value_of(k1, x, b1)) } };
    check("C06.functions.value", got == want);
    reach("C06.functions");
}

/// `&` and `%` on the number menu: numbers join as their general-format text, booleans as TRUE/FALSE, empty as ""
const NUM_TEXT: [&str; 5] = ["0", "1.5", "-2", "1E+200", "4"];
pub fn h_c06_concat_percent() {
    let (k1, k2) = (any_u8(), any_u8());
    assume((k1 < 5) & (k2 < 5));
    let (i, j, b1, b2) = (any_usize_to(NUMS.len() - 1), any_usize_to(NUMS.len() - 1), any_bool(), any_bool());
    assume((i != 3) & (j != 3));
    let (x, y) = (NUMS[i], NUMS[j]);
    let pct = any_bool();
    let entered = model_with(k1, x, b1, k2, y, b2, if pct { "=A1%" } else { "=A1&B1" });
    check("C06.concat_percent.entered", entered.is_some());
    let model = match entered { Some(m) => m, None => return };
    let got = model.get_cell_value_by_index(0, 1, 3);
    let text = |k: u8, n: usize, b: bool| -> Result<String, &'static str> {
        if k == 0 { Ok(NUM_TEXT[n].to_string()) } else if k == 1 { Ok(if b { "TRUE".to_string() } else { "FALSE".to_string() }) }
        else if k == 2 { Ok("".to_string()) } else if k == 3 { Ok("abc".to_string()) } else { Err("#N/A") }
    };
    let ok = if pct {
        match as_number(k1, x, b1) { Ok(a) => got == Ok(CellValue::Number(a / 100.0)), Err(e) => got == Ok(err(e)) }
    } else {
        match (text(k1, i, b1), text(k2, j, b2)) {
            (Ok(a), Ok(b)) => got == Ok(CellValue::String(format!("{}{}", a, b))),
            (Err(e), _) => got == Ok(err(e)),
            (_, Err(e)) => got == Ok(err(e)),
        }
    };
    check("C06.concat_percent.value", ok);
    reach("C06.concat_percent");
}

/// the rest of the property's function list on the number menu
const MORE: [&str; 7] = ["=ABS(A1)", "=MIN(A1:B1)", "=MAX(A1:B1)", "=AVERAGE(A1:B1)", "=ROUND(A1,0)", "=LEN(A1)", "=CONCAT(A1,B1)"];
const ROUNDED: [f64; 5] = [0.0, 2.0, -2.0, 1e200, 4.0];
pub fn h_c06_more_functions() {
    let (k1, k2) = (any_u8(), any_u8());
    assume((k1 < 5) & (k2 < 5));
    let (i, j, b1, b2) = (any_usize_to(NUMS.len() - 1), any_usize_to(NUMS.len() - 1), any_bool(), any_bool());
    let (x, y) = (NUMS[i], NUMS[j]);
    let f = any_usize_to(MORE.len() - 1);
    // 1e200 prints in scientific notation / goes through the decimal rounding kernel: not executed
    if f >= 4 { assume((i != 3) & (j != 3)); }
    let entered = model_with(k1, x, b1, k2, y, b2, MORE[f]);
    check("C06.more_functions.entered", entered.is_some());
    let model = match entered { Some(m) => m, None => return };
    let got = model.get_cell_value_by_index(0, 1, 3);
    let num = |v: f64| CellValue::Number(v);
    let text = |k: u8, n: usize, b: bool| -> Result<String, &'static str> {
        if k == 0 { Ok(NUM_TEXT[n].to_string()) } else if k == 1 { Ok(if b { "TRUE".to_string() } else { "FALSE".to_string() }) }
        else if k == 2 { Ok("".to_string()) } else if k == 3 { Ok("abc".to_string()) } else { Err("#N/A") }
    };
    let any_error = k1 == 4 || k2 == 4;
    let want = if f == 0 {
        match as_number(k1, x, b1) { Ok(a) => num(a.abs()), Err(e) => err(e) }
    } else if f == 1 || f == 2 {
        // over a range only numbers count; no number at all gives 0
        if any_error { err("#N/A") } else {
            let (n1, n2) = (k1 == 0, k2 == 0);
            if n1 && n2 { num(if f == 1 { if x < y { x } else { y } } else if x > y { x } else { y }) }
            else if n1 { num(x) } else if n2 { num(y) } else { num(0.0) }
        }
    } else if f == 3 {
        if any_error { err("#N/A") } else {
            let (n1, n2) = (k1 == 0, k2 == 0);
            if n1 && n2 { let r = (x + y) / 2.0; if r.is_finite() { num(r) } else { err("#NUM!") } }
            else if n1 { num(x) } else if n2 { num(y) } else { err("#DIV/0!") }
        }
    } else if f == 4 {
        match as_number(k1, x, b1) { Ok(_) => num(if k1 == 0 { ROUNDED[i] } else if k1 == 1 && b1 { 1.0 } else { 0.0 }), Err(e) => err(e) }
    } else if f == 5 {
        match text(k1, i, b1) { Ok(t) => num(t.len() as f64), Err(e) => err(e) }
    } else {
        match (text(k1, i, b1), text(k2, j, b2)) { (Ok(a), Ok(b)) => CellValue::String(format!("{}{}", a, b)), (Err(e), _) => err(e), (_, Err(e)) => err(e) }
    };
    check("C06.more_functions.value", got == Ok(want));
    reach("C06.more_functions");
}

// ---- C05: values are consistent with inputs, cycles are #CIRC!
pub fn h_c05_chain_and_cycle() {
    let x = any_f64_finite();
    let mut ws = empty_sheet("Sheet1", 1);
    let mut row: HashMap<i32, Cell> = HashMap::new();
    row.insert(1, Cell::NumberCell { v: x, s: 0 });
    ws.sheet_data.insert(1, row);
    let mut model = model_from_workbook(workbook_with_cells(vec![ws]));
    // the formulas are typed in an order that is not the dependency order
    let typed = model.set_user_input(0, 1, 3, "=B1+A1".to_string()).is_ok()      // C1
        && model.set_user_input(0, 1, 2, "=A1+1".to_string()).is_ok()            // B1
        && model.set_user_input(0, 2, 1, "=B2+1".to_string()).is_ok()            // A2 -> B2 -> A2: a cycle
        && model.set_user_input(0, 2, 2, "=A2*2".to_string()).is_ok()
        && model.set_user_input(0, 2, 3, "=A2".to_string()).is_ok()              // C2 reads the cycle
        && model.set_user_input(0, 3, 1, "=C3".to_string()).is_ok()              // A3 reads itself through C3
        && model.set_user_input(0, 3, 3, "=A3".to_string()).is_ok()
        && model.set_user_input(0, 4, 1, "=A1".to_string()).is_ok();             // A4: off every cycle
    check("C05.entered", typed);
    if !typed { return; }
    model.evaluate();
    let v = |r: i32, c: i32| model.get_cell_value_by_index(0, r, c);
    let b1 = x + 1.0;
    let fin = |r: f64| if r.is_finite() { CellValue::Number(r) } else { err("#NUM!") };
    check("C05.chain.values_follow_inputs", (v(1, 2) == Ok(fin(b1))) & (b1.is_finite() | (v(1, 3) == Ok(err("#NUM!")))) & (!b1.is_finite() | (v(1, 3) == Ok(fin(b1 + x)))) & (v(4, 1) == Ok(CellValue::Number(x))));
    check("C05.cycle.is_circ", (v(2, 1) == Ok(err("#CIRC!"))) & (v(2, 2) == Ok(err("#CIRC!"))) & (v(2, 3) == Ok(err("#CIRC!"))) & (v(3, 1) == Ok(err("#CIRC!"))) & (v(3, 3) == Ok(err("#CIRC!"))));
    // a second pass changes nothing
    model.evaluate();
    check("C05.second_pass_same", (model.get_cell_value_by_index(0, 1, 3) == Ok(fin(if b1.is_finite() { b1 + x } else { f64::INFINITY }))) & (model.get_cell_value_by_index(0, 2, 1) == Ok(err("#CIRC!"))));
    // the input changes: after the next evaluation every dependent holds the value for the new input
    let y = any_f64_finite();
    if model.set_user_input(0, 4, 1, "=A1+A1".to_string()).is_ok() {
        model.update_cell_with_number(0, 1, 1, y).ok();
        model.evaluate();
        let b1 = y + 1.0;
        check("C05.after_edit.values_follow_new_input", (model.get_cell_value_by_index(0, 1, 2) == Ok(fin(b1)))
            & (!b1.is_finite() | (model.get_cell_value_by_index(0, 1, 3) == Ok(fin(b1 + y))))
            & (model.get_cell_value_by_index(0, 4, 1) == Ok(fin(y + y)))
            & (model.get_cell_value_by_index(0, 2, 2) == Ok(err("#CIRC!"))));
    }
    reach("C05.chain_and_cycle");
}

// ---- C31 through the evaluator: a dynamic array that shrinks leaves no stale spill behind
/// `=SEQUENCE($A$1)` at a symbolic anchor (rows 2..=4, columns 2..=4; off and on the diagonal), A1 = 3, evaluated;
/// then A1 becomes 1 or 2 (solver chooses) and the sheet is evaluated again
pub fn h_c31_shrinking_spill() {
    let (r, c) = (any_i32_in(2, 4), any_i32_in(2, 4));
    let mut ws = empty_sheet("Sheet1", 1);
    let mut row: HashMap<i32, Cell> = HashMap::new();
    row.insert(1, Cell::NumberCell { v: 3.0, s: 0 });
    ws.sheet_data.insert(1, row);
    let mut model = model_from_workbook(workbook_with_cells(vec![ws]));
    let typed = model.set_user_input(0, r, c, "=SEQUENCE($A$1)".to_string()).is_ok();
    check("C31.shrink.entered", typed);
    if !typed { return; }
    model.evaluate();
    let v = |m: &Model, rr: i32| m.get_cell_value_by_index(0, rr, c);
    check("C31.shrink.first_spill_exact", (v(&model, r) == Ok(CellValue::Number(1.0))) & (v(&model, r + 1) == Ok(CellValue::Number(2.0)))
        & (v(&model, r + 2) == Ok(CellValue::Number(3.0))) & (v(&model, r + 3) == Ok(CellValue::None)));
    let n = any_i32_in(1, 2);
    model.update_cell_with_number(0, 1, 1, n as f64).ok();
    model.evaluate();
    check("C31.shrink.covered_cells_hold_the_result", (v(&model, r) == Ok(CellValue::Number(1.0))) & ((n == 1) | (v(&model, r + 1) == Ok(CellValue::Number(2.0)))));
    check("C31.shrink.no_stale_value_outside_the_result", ((n == 2) | (v(&model, r + 1) == Ok(CellValue::None))) & (v(&model, r + 2) == Ok(CellValue::None)));
    reach("C31.shrink");
}

/// a horizontal spill (`=F1:H1` at A3, spilling A3:C3) whose source loses a column: after the structural edit and the
/// next evaluation the spill covers exactly the new result
pub fn h_c31_spill_after_column_delete() {
    let mut ws = empty_sheet("Sheet1", 1);
    let mut row: HashMap<i32, Cell> = HashMap::new();
    row.insert(6, Cell::NumberCell { v: 1.0, s: 0 });
    row.insert(7, Cell::NumberCell { v: 2.0, s: 0 });
    row.insert(8, Cell::NumberCell { v: 3.0, s: 0 });
    ws.sheet_data.insert(1, row);
    let mut model = model_from_workbook(workbook_with_cells(vec![ws]));
    let typed = model.set_user_input(0, 3, 1, "=F1:H1".to_string()).is_ok();
    check("C31.column_delete.entered", typed);
    if !typed { return; }
    model.evaluate();
    let v = |m: &Model, cc: i32| m.get_cell_value_by_index(0, 3, cc);
    check("C31.column_delete.first_spill_exact", (v(&model, 1) == Ok(CellValue::Number(1.0))) & (v(&model, 2) == Ok(CellValue::Number(2.0)))
        & (v(&model, 3) == Ok(CellValue::Number(3.0))) & (v(&model, 4) == Ok(CellValue::None)));
    // delete G or H (the solver chooses): the source shrinks to two columns
    let col = any_i32_in(7, 8);
    if model.delete_columns(0, col, 1).is_ok() {
        model.evaluate();
        // deleting the inner column G leaves F1:G1 = {1, 3}; deleting the corner column H turns the corner into #REF!
        // (the formula then shows an error and spills nothing)
        if col == 7 {
            check("C31.column_delete.spill_is_the_new_result", (v(&model, 1) == Ok(CellValue::Number(1.0))) & (v(&model, 2) == Ok(CellValue::Number(3.0))));
        } else {
            let is_error = match v(&model, 1) { Ok(CellValue::String(t)) => t.starts_with('#'), _ => false };
            check("C31.column_delete.lost_corner_is_an_error", is_error & (v(&model, 2) == Ok(CellValue::None)));
        }
        check("C31.column_delete.no_stale_value", v(&model, 3) == Ok(CellValue::None));
    }
    reach("C31.column_delete");
}

// ---- C07: the values do not depend on the order of entry or on when evaluation ran
const C07_CELLS: [(i32, i32, &str); 5] = [(1, 2, "=A1+1"), (1, 3, "=SUM(A1:B1)"), (1, 4, "=SEQUENCE(2)"), (1, 5, "=D2*2"), (2, 1, "=C1&\"x\"")];
const C07_ORDERS: [[usize; 5]; 4] = [[0, 1, 2, 3, 4], [4, 3, 2, 1, 0], [2, 4, 0, 3, 1], [3, 0, 4, 1, 2]];

fn c07_build(x: f64, order: usize, eval_each: bool, number_last: bool) -> Option<Model<'static>> {
    let mut model = model_from_workbook(workbook_with_cells(vec![empty_sheet("Sheet1", 1)]));
    if !number_last { if model.update_cell_with_number(0, 1, 1, x).is_err() { return None; } if eval_each { model.evaluate(); } }
    let mut i = 0;
    while i < 5 {
        let (r, c, f) = C07_CELLS[C07_ORDERS[order][i]];
        if model.set_user_input(0, r, c, f.to_string()).is_err() { return None; }
        if eval_each { model.evaluate(); }
        i += 1;
    }
    if number_last { if model.update_cell_with_number(0, 1, 1, x).is_err() { return None; } }
    model.evaluate();
    Some(model)
}
fn c07_values(m: &Model) -> [Result<CellValue, String>; 7] {
    [m.get_cell_value_by_index(0, 1, 2), m.get_cell_value_by_index(0, 1, 3), m.get_cell_value_by_index(0, 1, 4), m.get_cell_value_by_index(0, 2, 4),
     m.get_cell_value_by_index(0, 1, 5), m.get_cell_value_by_index(0, 2, 1), m.get_cell_value_by_index(0, 3, 4)]
}
/// the reference build enters the cells in dependency order and evaluates once; the other build uses one of four
/// orders (solver chooses), evaluates after every edit or only at the end, and enters the number first or last
pub fn h_c07_order_and_schedule() {
    // 1.5 keeps the text cell (C1 & "x") inside the decimal printer the engine models; the number itself is symbolic
    // for the cells that do not print it
    let x = 1.5;
    let reference = c07_build(x, 0, false, false);
    let order = any_usize_to(3);
    let (eval_each, number_last) = (any_bool(), any_bool());
    let other = c07_build(x, order, eval_each, number_last);
    check("C07.entered", reference.is_some() & other.is_some());
    let (mut a, mut b) = match (reference, other) { (Some(a), Some(b)) => (a, b), _ => return };
    let want = c07_values(&a);
    check("C07.reference_values", (want[0] == Ok(CellValue::Number(2.5))) & (want[1] == Ok(CellValue::Number(4.0))) & (want[2] == Ok(CellValue::Number(1.0)))
        & (want[3] == Ok(CellValue::Number(2.0))) & (want[4] == Ok(CellValue::Number(4.0))) & (want[5] == Ok(CellValue::String("4x".to_string()))) & (want[6] == Ok(CellValue::None)));
    check("C07.order_and_schedule.same_values", c07_values(&b) == want);
    // evaluating again changes nothing
    a.evaluate();
    b.evaluate();
    check("C07.second_evaluation.same_values", (c07_values(&a) == want) & (c07_values(&b) == want));
    reach("C07.order_and_schedule");
}

/// two cells with the same formula read the same cell: one sits before it in evaluation order and reads it while it is
/// being computed, the other sits after it and reads what was stored - they must agree with each other and with
/// what the read cell shows (C1 is a number, a boolean, empty, text or an error; B1 = `=C1`)
pub fn h_c05_readers_agree() {
    let k = any_u8();
    assume(k < 5);
    let mut ws = empty_sheet("Sheet1", 1);
    let mut row: HashMap<i32, Cell> = HashMap::new();
    if let Some(c) = input_cell(k, 1.5, true) { row.insert(3, c); }
    ws.sheet_data.insert(1, row);
    let mut model = model_from_workbook(workbook_with_cells(vec![ws]));
    let typed = model.set_user_input(0, 1, 1, "=B1&\"x\"".to_string()).is_ok() && model.set_user_input(0, 1, 2, "=C1".to_string()).is_ok()
        && model.set_user_input(0, 1, 4, "=B1&\"x\"".to_string()).is_ok() && model.set_user_input(0, 2, 1, "=ISNUMBER(B1)".to_string()).is_ok()
        && model.set_user_input(0, 2, 4, "=ISNUMBER(B1)".to_string()).is_ok();
    check("C05.readers.entered", typed);
    if !typed { return; }
    model.evaluate();
    let v = |r: i32, c: i32| model.get_cell_value_by_index(0, r, c);
    check("C05.readers.same_formula_same_value", (v(1, 1) == v(1, 4)) & (v(2, 1) == v(2, 4)));
    // and the value is the one that follows from what B1 shows
    let shown = if k == 0 { "1.5x" } else if k == 1 { "TRUEx" } else if k == 2 { "0x" } else if k == 3 { "abcx" } else { "#N/A" };
    check("C05.readers.value_follows_the_shown_input", v(1, 4) == Ok(CellValue::String(shown.to_string())));
    reach("C05.readers");
}

/// the same for a read cell whose formula ends in an error that is only decided when the value is stored:
/// an overflowing product (#NUM!) and a dynamic array blocked by user content (#SPILL!)
pub fn h_c05_readers_agree_on_errors() {
    let blocked_spill = any_bool();
    let mut ws = empty_sheet("Sheet1", 1);
    if blocked_spill {
        let mut row: HashMap<i32, Cell> = HashMap::new();
        row.insert(2, Cell::SharedString { si: 0, s: 0 });
        ws.sheet_data.insert(2, row);
    }
    if !blocked_spill {
        let mut row: HashMap<i32, Cell> = HashMap::new();
        row.insert(3, Cell::NumberCell { v: 1e200, s: 0 });
        ws.sheet_data.insert(1, row);
    }
    let mut model = model_from_workbook(workbook_with_cells(vec![ws]));
    let source = if blocked_spill { "=SEQUENCE(2)" } else { "=C1*C1" };
    let typed = model.set_user_input(0, 1, 1, "=ISERROR(B1)".to_string()).is_ok() && model.set_user_input(0, 1, 2, source.to_string()).is_ok()
        && model.set_user_input(0, 1, 4, "=ISERROR(B1)".to_string()).is_ok() && model.set_user_input(0, 3, 1, "=B1+1".to_string()).is_ok()
        && model.set_user_input(0, 3, 4, "=B1+1".to_string()).is_ok();
    check("C05.readers_errors.entered", typed);
    if !typed { return; }
    model.evaluate();
    let v = |r: i32, c: i32| model.get_cell_value_by_index(0, r, c);
    let e = if blocked_spill { "#SPILL!" } else { "#NUM!" };
    check("C05.readers_errors.source_shows_the_error", v(1, 2) == Ok(err(e)));
    check("C05.readers_errors.same_formula_same_value", (v(1, 1) == v(1, 4)) & (v(3, 1) == v(3, 4)));
    check("C05.readers_errors.value_follows_the_shown_input", (v(1, 4) == Ok(CellValue::Boolean(true))) & (v(3, 4) == Ok(err(e))));
    reach("C05.readers_errors");
}

/// formulas that read cells filled by a dynamic array, where the reader comes before the anchor in evaluation order
/// (it is demanded by an earlier dynamic array): after every pass each reader holds the value of the cell it reads
pub fn h_c05_readers_of_spills() {
    let layout = any_bool();
    let mut ws = empty_sheet("Sheet1", 1);
    let mut model;
    if layout {
        // F1:F2 = 10, 20; D1 = F1:F2 (spills D1:D2); C5 = D2+1; A1 = C5:C6 (spills A1:A2, demands C5 before D1 runs)
        let mut r1: HashMap<i32, Cell> = HashMap::new();
        r1.insert(6, Cell::NumberCell { v: 10.0, s: 0 });
        ws.sheet_data.insert(1, r1);
        let mut r2: HashMap<i32, Cell> = HashMap::new();
        r2.insert(6, Cell::NumberCell { v: 20.0, s: 0 });
        ws.sheet_data.insert(2, r2);
        model = model_from_workbook(workbook_with_cells(vec![ws]));
        let typed = model.set_user_input(0, 1, 1, "=C5:C6".to_string()).is_ok() && model.set_user_input(0, 5, 3, "=D2+1".to_string()).is_ok()
            && model.set_user_input(0, 1, 4, "=F1:F2".to_string()).is_ok();
        check("C05.spill_readers.entered", typed);
        if !typed { return; }
        model.evaluate();
        let v = |m: &Model, r: i32, c: i32| m.get_cell_value_by_index(0, r, c);
        // KF-C05-3: on the very first pass C5 is demanded (by the dynamic array in A1) before the spill it reads exists,
        // and holds 1 until the next evaluation
        check_kf("C05.spill_readers.first_pass_through_a_plain_formula", (v(&model, 2, 4) == Ok(CellValue::Number(20.0))) & (v(&model, 5, 3) == Ok(CellValue::Number(21.0))) & (v(&model, 1, 1) == Ok(CellValue::Number(21.0))), "KF-C05-3", true);
        model.evaluate();
        check("C05.spill_readers.second_pass", (v(&model, 2, 4) == Ok(CellValue::Number(20.0))) & (v(&model, 5, 3) == Ok(CellValue::Number(21.0))) & (v(&model, 1, 1) == Ok(CellValue::Number(21.0))));
        // the input behind the spill changes
        let n = any_i32_in(30, 31);
        model.update_cell_with_number(0, 2, 6, n as f64).ok();
        model.evaluate();
        check("C05.spill_readers.after_edit", (v(&model, 2, 4) == Ok(CellValue::Number(n as f64))) & (v(&model, 5, 3) == Ok(CellValue::Number(n as f64 + 1.0))) & (v(&model, 1, 1) == Ok(CellValue::Number(n as f64 + 1.0))));
    } else {
        // E1:E2 = 1, 2; C1 = E1:E2 (spills C1:C2); A1 = C2:D2 reads the other spill only through its last row
        let mut r1: HashMap<i32, Cell> = HashMap::new();
        r1.insert(5, Cell::NumberCell { v: 1.0, s: 0 });
        ws.sheet_data.insert(1, r1);
        let mut r2: HashMap<i32, Cell> = HashMap::new();
        r2.insert(5, Cell::NumberCell { v: 2.0, s: 0 });
        ws.sheet_data.insert(2, r2);
        model = model_from_workbook(workbook_with_cells(vec![ws]));
        let typed = model.set_user_input(0, 1, 1, "=C2:D2".to_string()).is_ok() && model.set_user_input(0, 1, 3, "=E1:E2".to_string()).is_ok();
        check("C05.spill_readers.entered", typed);
        if !typed { return; }
        model.evaluate();
        check("C05.spill_readers.first_pass", (model.get_cell_value_by_index(0, 2, 3) == Ok(CellValue::Number(2.0))) & (model.get_cell_value_by_index(0, 1, 1) == Ok(CellValue::Number(2.0))));
    }
    reach("C05.spill_readers");
}

// ---- C08 through the evaluator: arithmetic on any two finite numbers never leaves a non-finite number in a cell
const C08_FORMULAS: [&str; 6] = ["=A1+B1", "=A1-B1", "=A1*B1", "=-A1", "=SUM(A1:B1)", "=A1*B1+A1"];
pub fn h_c08_arithmetic_results_are_finite() {
    let (x, y) = (any_f64_finite(), any_f64_finite());
    let f = any_usize_to(C08_FORMULAS.len() - 1);
    let entered = model_with(0, x, false, 0, y, false, C08_FORMULAS[f]);
    check("C08.arithmetic.entered", entered.is_some());
    let model = match entered { Some(m) => m, None => return };
    let ok = match model.get_cell_value_by_index(0, 1, 3) {
        Ok(CellValue::Number(v)) => v.is_finite(),
        Ok(CellValue::String(t)) => t == "#NUM!",
        _ => false,
    };
    check("C08.arithmetic.finite_number_or_num_error", ok);
    reach("C08.arithmetic");
}

/// two dynamic arrays whose spill areas overlap in one cell (C1 = SEQUENCE(3) down, A3 = SEQUENCE(1,3) across, both
/// want C3): which of them is blocked must not depend on the order of entry or on when evaluation ran
pub fn h_c07_overlapping_spills() {
    let build = |first_a3: bool, eval_each: bool| -> Option<Model<'static>> {
        let mut model = model_from_workbook(workbook_with_cells(vec![empty_sheet("Sheet1", 1)]));
        let cells = if first_a3 { [(3, 1, "=SEQUENCE(1,3)"), (1, 3, "=SEQUENCE(3)")] } else { [(1, 3, "=SEQUENCE(3)"), (3, 1, "=SEQUENCE(1,3)")] };
        let mut i = 0;
        while i < 2 {
            if model.set_user_input(0, cells[i].0, cells[i].1, cells[i].2.to_string()).is_err() { return None; }
            if eval_each { model.evaluate(); }
            i += 1;
        }
        model.evaluate();
        Some(model)
    };
    let reference = build(false, false);
    let (first_a3, eval_each) = (any_bool(), any_bool());
    let other = build(first_a3, eval_each);
    check("C07.overlap.entered", reference.is_some() & other.is_some());
    let (a, b) = match (reference, other) { (Some(a), Some(b)) => (a, b), _ => return };
    let vals = |m: &Model| [m.get_cell_value_by_index(0, 1, 3), m.get_cell_value_by_index(0, 2, 3), m.get_cell_value_by_index(0, 3, 3), m.get_cell_value_by_index(0, 3, 1), m.get_cell_value_by_index(0, 3, 2)];
    // KF-C07-1: when A3 is entered and evaluated before C1 exists, its spill keeps C3 and C1 stays #SPILL!; in every other
    // schedule C1 (first in evaluation order) wins
    check_kf("C07.overlap.same_values", vals(&a) == vals(&b), "KF-C07-1", first_a3 & eval_each);
    reach("C07.overlap");
}

/// a value typed into a cell of a standing spill: the same inputs evaluated once give a blocked array and an otherwise
/// empty column; evaluating between the two edits must give the same
pub fn h_c07_value_typed_into_a_spill() {
    let at = any_i32_in(2, 4);
    let horizontal = any_bool();
    let formula = if horizontal { "=SEQUENCE(1,4)" } else { "=SEQUENCE(4)" };
    let pos = |k: i32| if horizontal { (1, k) } else { (k, 1) };
    let build = |eval_between: bool| -> Option<Model<'static>> {
        let mut model = model_from_workbook(workbook_with_cells(vec![empty_sheet("Sheet1", 1)]));
        if model.set_user_input(0, 1, 1, formula.to_string()).is_err() { return None; }
        if eval_between { model.evaluate(); }
        let (r, c) = pos(at);
        if model.set_user_input(0, r, c, "100".to_string()).is_err() { return None; }
        model.evaluate();
        Some(model)
    };
    let (once, between) = (build(false), build(true));
    check("C07.typed_into_spill.entered", once.is_some() & between.is_some());
    let (a, b) = match (once, between) { (Some(a), Some(b)) => (a, b), _ => return };
    let vals = |m: &Model| { let g = |k: i32| { let (r, c) = pos(k); m.get_cell_value_by_index(0, r, c) }; [g(1), g(2), g(3), g(4), g(5)] };
    check("C07.typed_into_spill.same_values", vals(&a) == vals(&b));
    reach("C07.typed_into_spill");
}

/// a dynamic array that reads only the spilled cells of a later one (A1 = C2:D2, B2 = SEQUENCE(1,3)): the first
/// evaluation already gives the final values - a second one changes nothing, and entering B2 first gives the same
pub fn h_c07_array_reading_a_later_spill() {
    let b2_first = any_bool();
    let mut model = model_from_workbook(workbook_with_cells(vec![empty_sheet("Sheet1", 1)]));
    let typed = if b2_first { model.set_user_input(0, 2, 2, "=SEQUENCE(1,3)".to_string()).is_ok() && model.set_user_input(0, 1, 1, "=C2:D2".to_string()).is_ok() }
                else { model.set_user_input(0, 1, 1, "=C2:D2".to_string()).is_ok() && model.set_user_input(0, 2, 2, "=SEQUENCE(1,3)".to_string()).is_ok() };
    check("C07.later_spill.entered", typed);
    if !typed { return; }
    model.evaluate();
    let vals = |m: &Model| [m.get_cell_value_by_index(0, 1, 1), m.get_cell_value_by_index(0, 1, 2), m.get_cell_value_by_index(0, 2, 3), m.get_cell_value_by_index(0, 2, 4)];
    check("C07.later_spill.first_evaluation_is_final", (vals(&model)[0] == Ok(CellValue::Number(2.0))) & (vals(&model)[1] == Ok(CellValue::Number(3.0))));
    let first = vals(&model);
    model.evaluate();
    check("C07.later_spill.second_evaluation_same", vals(&model) == first);
    reach("C07.later_spill");
}

/// text as a logical argument: a literal or computed text reading TRUE / FALSE counts, text coming from a cell
/// reference is ignored (as the engine documents for AND / OR)
const LOGICAL_TEXT: [(&str, bool); 6] = [("=AND(\"FAL\"&\"SE\",TRUE)", false), ("=OR(\"TR\"&\"UE\",FALSE)", true), ("=AND(\"true\",TRUE)", true),
    ("=OR(\"false\",FALSE)", false), ("=AND(A1,TRUE)", true), ("=OR(A1,FALSE)", false)];
pub fn h_c06_logical_text_arguments() {
    let f = any_usize_to(LOGICAL_TEXT.len() - 1);
    // A1 holds the text abc
    let entered = model_with(3, 0.0, false, 2, 0.0, false, LOGICAL_TEXT[f].0);
    check("C06.logical_text.entered", entered.is_some());
    let model = match entered { Some(m) => m, None => return };
    check("C06.logical_text.value", model.get_cell_value_by_index(0, 1, 3) == Ok(CellValue::Boolean(LOGICAL_TEXT[f].1)));
    reach("C06.logical_text");
}
