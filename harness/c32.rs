//! C32 - a defined name's stored formula and value survive a language / locale switch, the renaming and moving of
//! sheets, and renaming the name updates the formulas that use it without changing a value.  Real parser, printers
//! and evaluator; names are created through `Model::new_defined_name`.
use super::rt::*;
use super::st::*;
use crate::cell::CellValue;
use crate::model::Model;
use crate::types::*;
use std::collections::HashMap;

fn names_model() -> Option<Model<'static>> {
    let mut s1 = empty_sheet("Sheet1", 1);
    let mut row: HashMap<i32, Cell> = HashMap::new();
    row.insert(1, Cell::NumberCell { v: 1.5, s: 0 });
    s1.sheet_data.insert(1, row);
    let mut s2 = empty_sheet("Data", 2);
    let mut row2: HashMap<i32, Cell> = HashMap::new();
    row2.insert(2, Cell::NumberCell { v: 4.0, s: 0 });
    s2.sheet_data.insert(3, row2);
    let mut model = model_from_workbook(workbook_with_cells(vec![s1, s2, empty_sheet("Other", 3)]));
    if model.new_defined_name("Rate", None, "Sheet1!$A$1").is_err() { return None; }
    if model.new_defined_name("Base", None, "Data!$B$3").is_err() { return None; }
    if model.set_user_input(0, 2, 1, "=Rate*2+Base".to_string()).is_err() { return None; }
    if model.set_user_input(1, 1, 1, "=SUM(Rate,Base)".to_string()).is_err() { return None; }
    model.evaluate();
    Some(model)
}
fn find(m: &Model, n: &str) -> u32 { let mut i = 0; let mut at = 9; while i < m.workbook.worksheets.len() { if m.workbook.worksheets[i].get_name() == n { at = i as u32; } i += 1; } at }
fn name_formulas(m: &Model) -> Vec<(String, Option<u32>, String)> { m.get_defined_name_list() }

pub fn h_c32_names_survive_edits() {
    let entered = names_model();
    check("C32.entered", entered.is_some());
    let mut model = match entered { Some(m) => m, None => return };
    let v0 = [model.get_cell_value_by_index(0, 2, 1), model.get_cell_value_by_index(1, 1, 1)];
    check("C32.values_before", (v0[0] == Ok(CellValue::Number(7.0))) & (v0[1] == Ok(CellValue::Number(5.5))));
    let stored0: Vec<String> = model.workbook.defined_names.iter().map(|d| d.formula.clone()).collect();
    let listed0 = name_formulas(&model);
    let edit = any_u8();
    assume(edit < 5);
    let mut data_name = "Data";
    if edit == 0 {
        let l = any_usize_to(3);
        let lang = if l == 0 { "de" } else if l == 1 { "es" } else if l == 2 { "fr" } else { "it" };
        check("C32.language_accepted", model.set_language(lang).is_ok());
    } else if edit == 1 {
        check("C32.locale_accepted", model.set_locale("de").is_ok());
    } else if edit == 2 {
        // rename a sheet no name refers to
        check("C32.rename_other_accepted", model.rename_sheet_by_index(2, "Renamed").is_ok());
    } else if edit == 3 {
        let (from, to) = (any_u32(), any_u32());
        assume((from < 3) & (to < 3));
        if model.move_sheet(from, to).is_err() { return; }
    } else {
        // delete the sheet no name refers to
        let at = find(&model, "Other");
        check("C32.delete_other_accepted", model.delete_sheet(at).is_ok());
    }
    model.evaluate();
    let (i1, i2) = (find(&model, "Sheet1"), find(&model, data_name));
    check("C32.edit.values_unchanged", (model.get_cell_value_by_index(i1, 2, 1) == v0[0]) & (model.get_cell_value_by_index(i2, 1, 1) == v0[1]));
    let stored1: Vec<String> = model.workbook.defined_names.iter().map(|d| d.formula.clone()).collect();
    check("C32.edit.stored_name_formulas_unchanged", stored1 == stored0);
    if edit >= 2 { check("C32.edit.listed_name_formulas_unchanged", name_formulas(&model) == listed0); }
    data_name = "Data";
    // renaming a name updates the formulas that use it, values stay
    if edit == 2 {
        let renamed = model.update_defined_name("Rate", None, "Tax", None, "Sheet1!$A$1").is_ok();
        check("C32.rename_name.accepted", renamed);
        if renamed {
            model.evaluate();
            let f = model.get_cell_formula(find(&model, "Sheet1"), 2, 1).unwrap_or(None).unwrap_or_default();
            let g = model.get_cell_formula(find(&model, data_name), 1, 1).unwrap_or(None).unwrap_or_default();
            check("C32.rename_name.formulas_use_the_new_name", (f == "=Tax*2+Base") & (g == "=SUM(Tax,Base)"));
            check("C32.rename_name.values_unchanged", (model.get_cell_value_by_index(find(&model, "Sheet1"), 2, 1) == v0[0]) & (model.get_cell_value_by_index(find(&model, data_name), 1, 1) == v0[1]));
        }
    }
    reach("C32.names");
}

/// sheet-local names: a name local to the sheet Other (created first), then the two global names; deleting Other must
/// not disturb the global names, and renaming Rate while moving it to the scope of Sheet1 rewrites the Sheet1 formula
pub fn h_c32_local_name_and_rescope() {
    let mut s1 = empty_sheet("Sheet1", 1);
    let mut row: HashMap<i32, Cell> = HashMap::new();
    row.insert(1, Cell::NumberCell { v: 1.5, s: 0 });
    s1.sheet_data.insert(1, row);
    let mut s2 = empty_sheet("Data", 2);
    let mut row2: HashMap<i32, Cell> = HashMap::new();
    row2.insert(2, Cell::NumberCell { v: 4.0, s: 0 });
    s2.sheet_data.insert(3, row2);
    let mut model = model_from_workbook(workbook_with_cells(vec![s1, s2, empty_sheet("Other", 3)]));
    let typed = model.new_defined_name("Loc", Some(2), "Other!$A$1").is_ok() && model.new_defined_name("Rate", None, "Sheet1!$A$1").is_ok()
        && model.new_defined_name("Base", None, "Data!$B$3").is_ok() && model.set_user_input(0, 2, 1, "=Rate*2+Base".to_string()).is_ok()
        && model.set_user_input(1, 1, 1, "=SUM(Rate,Base)".to_string()).is_ok();
    check("C32.local.entered", typed);
    if !typed { return; }
    model.evaluate();
    check("C32.local.values_before", (model.get_cell_value_by_index(0, 2, 1) == Ok(CellValue::Number(7.0))) & (model.get_cell_value_by_index(1, 1, 1) == Ok(CellValue::Number(5.5))));
    let delete_other = any_bool();
    if delete_other {
        let deleted = model.delete_sheet(2).is_ok();
        check("C32.local.delete_accepted", deleted);
        if !deleted { return; }
        model.evaluate();
        check("C32.local.global_names_survive_the_deletion", (model.get_cell_value_by_index(0, 2, 1) == Ok(CellValue::Number(7.0))) & (model.get_cell_value_by_index(1, 1, 1) == Ok(CellValue::Number(5.5))));
    } else {
        let renamed = model.update_defined_name("Rate", None, "Tax", Some(0), "Sheet1!$A$1").is_ok();
        check("C32.local.rename_and_rescope_accepted", renamed);
        if !renamed { return; }
        model.evaluate();
        let f = model.get_cell_formula(0, 2, 1).unwrap_or(None).unwrap_or_default();
        check("C32.local.formula_in_scope_uses_the_new_name", (f == "=Tax*2+Base") & (model.get_cell_value_by_index(0, 2, 1) == Ok(CellValue::Number(7.0))));
    }
    reach("C32.local");
}
