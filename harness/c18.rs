//! C18 - re-entering a cell's displayed content reproduces the cell (content text, value type, style, value), for
//! cells of plain content in the en and de locales: `Model::get_localized_cell_content` then `Model::set_user_input`.
use super::rt::*;
use super::st::*;
use crate::model::Model;
use crate::types::*;
use std::collections::HashMap;

fn cell_at(m: &Model, r: i32, c: i32) -> Option<Cell> {
    match m.workbook.worksheets[0].sheet_data.get(&r) { Some(row) => row.get(&c).cloned(), None => None }
}

/// kinds: numbers (1.5, 123, -0.25, 1234567.5), booleans, text, text that looks like a number / boolean / error
/// (quote-prefixed, as the engine stores such input), an error value, an empty styled cell; default, bold or
/// percent-formatted style
fn menu_cell_model(de: bool) -> (Model<'static>, i32, i32, Cell) {
    let (r, c) = (any_row_index(), any_col_index());
    let mut ws = empty_sheet("Sheet1", 1);
    let mut wb = workbook_with_cells(vec![]);
    wb.shared_strings = vec!["abc".to_string(), "123".to_string(), "TRUE".to_string(), "#N/A".to_string(), "1,5".to_string()];
    if de { wb.settings.locale = "de".to_string(); }
    let mut bold = Style::default();
    bold.font.b = true;
    let bold_idx = wb.styles.get_style_index_or_create(&bold);
    let mut pct = Style::default();
    pct.num_fmt = "0.00%".to_string();
    let pct_idx = wb.styles.get_style_index_or_create(&pct);
    let quoted_idx = match wb.styles.get_style_with_quote_prefix(0) { Ok(i) => i, Err(_) => 0 };
    let sk = any_u8();
    assume(sk < 3);
    let style = if sk == 0 { 0 } else if sk == 1 { bold_idx } else { pct_idx };
    let k = any_u8();
    assume(k < 12);
    let cell = match k {
        0 => Cell::NumberCell { v: 1.5, s: style },
        1 => Cell::NumberCell { v: 123.0, s: style },
        2 => Cell::NumberCell { v: -0.25, s: style },
        3 => Cell::NumberCell { v: 1234567.5, s: style },
        4 => Cell::BooleanCell { v: true, s: style },
        5 => Cell::BooleanCell { v: false, s: style },
        6 => Cell::SharedString { si: 0, s: style },
        7 => Cell::SharedString { si: 1, s: quoted_idx },
        8 => Cell::SharedString { si: 2, s: quoted_idx },
        9 => Cell::SharedString { si: 3, s: quoted_idx },
        10 => Cell::SharedString { si: 4, s: quoted_idx },
        _ => Cell::EmptyCell { s: style },
    };
    let mut row: HashMap<i32, Cell> = HashMap::new();
    row.insert(c, cell.clone());
    ws.sheet_data.insert(r, row);
    wb.worksheets = vec![ws];
    let mut model = model_from_workbook(wb);
    (model, r, c, cell)
}

fn reenter_case(de: bool, id: &'static str) {
    let (mut model, r, c, cell) = menu_cell_model(de);
    let shown = match model.get_localized_cell_content(0, r, c) { Ok(s) => s, Err(_) => { check(id, false); return; } };
    let ok = model.set_user_input(0, r, c, shown.clone()).is_ok();
    // an empty styled cell shows "" and re-entering "" clears the contents: the record may be an empty cell or absent
    let same = match (&cell, cell_at(&model, r, c)) {
        (Cell::EmptyCell { s }, Some(Cell::EmptyCell { s: s2 })) => *s == s2,
        (_, got) => got == Some(cell.clone()),
    };
    check(id, ok & same & (model.get_localized_cell_content(0, r, c) == Ok(shown)));
}
pub fn h_c18_reenter_en() { reenter_case(false, "C18.reenter_en.cell_reproduced"); reach("C18.reenter_en"); }
pub fn h_c18_reenter_de() { reenter_case(true, "C18.reenter_de.cell_reproduced"); reach("C18.reenter_de"); }

/// the reachable two-step states: something from the menu above, then one of TRUE / 12 / abc / 'x typed over it;
/// the cell that results must again survive re-entry of what the editor shows for it
const TYPED: [&str; 4] = ["TRUE", "12", "abc", "'x"];
pub fn h_c18_reenter_after_typing_over() {
    let (mut model, r, c, _first) = menu_cell_model(false);
    let t = any_usize_to(TYPED.len() - 1);
    let accepted = model.set_user_input(0, r, c, TYPED[t].to_string()).is_ok();
    check("C18.typed_over.accepted", accepted);
    if !accepted { return; }
    let cell = cell_at(&model, r, c);
    let shown = match model.get_localized_cell_content(0, r, c) { Ok(s) => s, Err(_) => { check("C18.typed_over.cell_reproduced", false); return; } };
    let ok = model.set_user_input(0, r, c, shown.clone()).is_ok();
    check("C18.typed_over.cell_reproduced", ok & (cell_at(&model, r, c) == cell) & (model.get_localized_cell_content(0, r, c) == Ok(shown)));
    reach("C18.typed_over");
}

/// the same in the other display languages (de / es / fr / it, solver chooses): booleans and errors are shown with the
/// language's words and must come back as booleans and errors
const C18_LANGS: [&str; 4] = ["de", "es", "fr", "it"];
pub fn h_c18_reenter_other_languages() {
    let (mut model, r, c, cell) = menu_cell_model(false);
    let l = any_usize_to(C18_LANGS.len() - 1);
    let accepted = model.set_language(C18_LANGS[l]).is_ok();
    check("C18.reenter_languages.language_accepted", accepted);
    if !accepted { return; }
    let shown = match model.get_localized_cell_content(0, r, c) { Ok(s) => s, Err(_) => { check("C18.reenter_languages.cell_reproduced", false); return; } };
    let ok = model.set_user_input(0, r, c, shown.clone()).is_ok();
    let same = match (&cell, cell_at(&model, r, c)) {
        (Cell::EmptyCell { s }, Some(Cell::EmptyCell { s: s2 })) => *s == s2,
        (_, got) => got == Some(cell.clone()),
    };
    check("C18.reenter_languages.cell_reproduced", ok & same & (model.get_localized_cell_content(0, r, c) == Ok(shown)));
    reach("C18.reenter_languages");
}
