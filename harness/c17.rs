//! C17 - sheet rename and move preserve what formulas mean: after `Model::rename_sheet_by_index` references to the
//! renamed sheet show the new name (quoted when needed) and references to every other sheet - including sheets
//! that do not exist - are unchanged; `Model::move_sheet` changes no formula text.  Formulas are typed through
//! the real lexer/parser; rename re-parses and re-prints every stored formula.
use super::rt::*;
use super::st::*;
use crate::model::Model;
use crate::types::*;

const NEW_NAMES: [&str; 4] = ["New", "My Sheet", "a&b", "TRUE"];
const QUOTED: [&str; 4] = ["New", "'My Sheet'", "'a&b'", "TRUE"];
/// a rename that changes only the case of the name
const UPPER: [&str; 3] = ["SHEET1", "SHEET2", "SHEET3"];

fn three_sheets() -> Option<Model<'static>> {
    let mut model = model_from_workbook(workbook_with_cells(vec![empty_sheet("Sheet1", 1), empty_sheet("Sheet2", 2), empty_sheet("Sheet3", 3)]));
    if model.set_user_input(0, 4, 2, "=Sheet2!A1+Sheet3!$B$2+Ghost!C3+D4+Ghost!A1:B2".to_string()).is_err() { return None; }
    if model.set_user_input(1, 2, 2, "=A1*Sheet1!B5".to_string()).is_err() { return None; }
    if model.set_user_input(2, 7, 3, "=Sheet2!A1#".to_string()).is_err() { return None; }
    Some(model)
}
fn formula(m: &Model, sheet: u32, r: i32, c: i32) -> String { m.get_cell_formula(sheet, r, c).unwrap_or(None).unwrap_or_default() }

pub fn h_c17_rename_sheet() {
    let entered = three_sheets();
    check("C17.rename.formulas_entered", entered.is_some());
    let mut model = match entered { Some(m) => m, None => return };
    let which = any_u32();
    assume(which < 3);
    let n = any_usize_to(NEW_NAMES.len());
    let (new_name, shown) = if n < NEW_NAMES.len() { (NEW_NAMES[n], QUOTED[n]) } else { (UPPER[which as usize], UPPER[which as usize]) };
    if model.rename_sheet_by_index(which, new_name).is_ok() {
        let n0 = if which == 0 { shown } else { "Sheet1" };
        let n1 = if which == 1 { shown } else { "Sheet2" };
        let n2 = if which == 2 { shown } else { "Sheet3" };
        let want1 = format!("={}!A1+{}!$B$2+Ghost!C3+D4+Ghost!A1:B2", n1, n2);
        let want2 = format!("=A1*{}!B5", n0);
        check("C17.rename.references_show_new_name_others_unchanged", (formula(&model, 0, 4, 2) == want1) & (formula(&model, 1, 2, 2) == want2));
        check("C17.rename.spill_reference_shows_new_name", formula(&model, 2, 7, 3) == format!("={}!A1#", n1));
    }
    reach("C17.rename");
}

pub fn h_c17_move_sheet() {
    let entered = three_sheets();
    check("C17.move.formulas_entered", entered.is_some());
    let mut model = match entered { Some(m) => m, None => return };
    let (from, to) = (any_u32(), any_u32());
    assume((from < 3) & (to < 3));
    if model.move_sheet(from, to).is_ok() {
        // the sheets are found again by name
        let mut i1 = 9; let mut i2 = 9;
        let mut i = 0;
        while i < 3 { let nm = model.workbook.worksheets[i].get_name(); if nm == "Sheet1" { i1 = i as u32; } if nm == "Sheet2" { i2 = i as u32; } i += 1; }
        check("C17.move.formula_texts_unchanged", (formula(&model, i1, 4, 2) == "=Sheet2!A1+Sheet3!$B$2+Ghost!C3+D4+Ghost!A1:B2") & (formula(&model, i2, 2, 2) == "=A1*Sheet1!B5"));
    }
    reach("C17.move");
}
