//! C17 - sheet rename and move preserve what formulas mean: after `Model::rename_sheet_by_index` references to the
//! renamed sheet show the new name (quoted when needed) and references to every other sheet - including sheets
//! that do not exist - are unchanged; `Model::move_sheet` changes no formula text.  Formulas are typed through
//! the real lexer/parser; rename re-parses and re-prints every stored formula.
use super::rt::*;
use super::st::*;
use crate::model::Model;
use crate::types::*;

const NEW_NAMES: [&str; 4] = ["New", "My Sheet", "a&b", "TRUE"];
const QUOTED: [&str; 4] = ["New", "'My Sheet'", "'a&b'", "TRUE"];
/// a rename that changes only the case of the name
const UPPER: [&str; 3] = ["SHEET1", "SHEET2", "SHEET3"];

fn three_sheets() -> Option<Model<'static>> {
    let mut model = model_from_workbook(workbook_with_cells(vec![empty_sheet("Sheet1", 1), empty_sheet("Sheet2", 2), empty_sheet("Sheet3", 3)]));
    if model.set_user_input(0, 4, 2, "=Sheet2!A1+Sheet3!$B$2+Ghost!C3+D4+Ghost!A1:B2".to_string()).is_err() { return None; }
    if model.set_user_input(1, 2, 2, "=A1*Sheet1!B5".to_string()).is_err() { return None; }
    if model.set_user_input(2, 7, 3, "=Sheet2!A1#".to_string()).is_err() { return None; }
    Some(model)
}
fn formula(m: &Model, sheet: u32, r: i32, c: i32) -> String { m.get_cell_formula(sheet, r, c).unwrap_or(None).unwrap_or_default() }

pub fn h_c17_rename_sheet() {
    let entered = three_sheets();
    check("C17.rename.formulas_entered", entered.is_some());
    let mut model = match entered { Some(m) => m, None => return };
    let which = any_u32();
    assume(which < 3);
    let n = any_usize_to(NEW_NAMES.len());
    let (new_name, shown) = if n < NEW_NAMES.len() { (NEW_NAMES[n], QUOTED[n]) } else { (UPPER[which as usize], UPPER[which as usize]) };
    if model.rename_sheet_by_index(which, new_name).is_ok() {
        let n0 = if which == 0 { shown } else { "Sheet1" };
        let n1 = if which == 1 { shown } else { "Sheet2" };
        let n2 = if which == 2 { shown } else { "Sheet3" };
        let want1 = format!("={}!A1+{}!$B$2+Ghost!C3+D4+Ghost!A1:B2", n1, n2);
        let want2 = format!("=A1*{}!B5", n0);
        check("C17.rename.references_show_new_name_others_unchanged", (formula(&model, 0, 4, 2) == want1) & (formula(&model, 1, 2, 2) == want2));
        check("C17.rename.spill_reference_shows_new_name", formula(&model, 2, 7, 3) == format!("={}!A1#", n1));
    }
    reach("C17.rename");
}

pub fn h_c17_move_sheet() {
    let entered = three_sheets();
    check("C17.move.formulas_entered", entered.is_some());
    let mut model = match entered { Some(m) => m, None => return };
    let (from, to) = (any_u32(), any_u32());
    assume((from < 3) & (to < 3));
    if model.move_sheet(from, to).is_ok() {
        // the sheets are found again by name
        let mut i1 = 9; let mut i2 = 9;
        let mut i = 0;
        while i < 3 { let nm = model.workbook.worksheets[i].get_name(); if nm == "Sheet1" { i1 = i as u32; } if nm == "Sheet2" { i2 = i as u32; } i += 1; }
        check("C17.move.formula_texts_unchanged", (formula(&model, i1, 4, 2) == "=Sheet2!A1+Sheet3!$B$2+Ghost!C3+D4+Ghost!A1:B2") & (formula(&model, i2, 2, 2) == "=A1*Sheet1!B5"));
    }
    reach("C17.move");
}

// ---- values: a rename or a move changes no computed value (real evaluator)
use crate::cell::CellValue;
use std::collections::HashMap;

const C17_VALS: [f64; 3] = [1.5, -2.0, 0.25];
fn value_sheets(x: f64, y: f64) -> Option<Model<'static>> {
    let mut s2 = empty_sheet("Sheet2", 2);
    let mut r1: HashMap<i32, Cell> = HashMap::new();
    r1.insert(1, Cell::NumberCell { v: x, s: 0 });
    s2.sheet_data.insert(1, r1);
    let mut s3 = empty_sheet("Sheet3", 3);
    let mut r2: HashMap<i32, Cell> = HashMap::new();
    r2.insert(2, Cell::NumberCell { v: y, s: 0 });
    s3.sheet_data.insert(2, r2);
    let mut model = model_from_workbook(workbook_with_cells(vec![empty_sheet("Sheet1", 1), s2, s3]));
    if model.set_user_input(0, 1, 1, "=Sheet2!A1+Sheet3!$B$2".to_string()).is_err() { return None; }
    if model.set_user_input(1, 1, 2, "=A1-Sheet1!A1".to_string()).is_err() { return None; }
    if model.set_user_input(2, 5, 5, "=SUM(Sheet2!A1:B1)".to_string()).is_err() { return None; }
    model.evaluate();
    Some(model)
}
/// the three formula cells, found again by sheet name after a move
fn three_values(m: &Model, names: [&str; 3]) -> [Result<CellValue, String>; 3] {
    let find = |n: &str| { let mut i = 0; let mut at = 9; while i < 3 { if m.workbook.worksheets[i].get_name() == n { at = i as u32; } i += 1; } at };
    [m.get_cell_value_by_index(find(names[0]), 1, 1), m.get_cell_value_by_index(find(names[1]), 1, 2), m.get_cell_value_by_index(find(names[2]), 5, 5)]
}
pub fn h_c17_values_kept() {
    let (x, y) = (C17_VALS[any_usize_to(2)], C17_VALS[any_usize_to(2)]);
    let entered = value_sheets(x, y);
    check("C17.values.entered", entered.is_some());
    let mut model = match entered { Some(m) => m, None => return };
    let before = three_values(&model, ["Sheet1", "Sheet2", "Sheet3"]);
    let rename = any_bool();
    let which = any_u32();
    assume(which < 3);
    if rename {
        let n = any_usize_to(NEW_NAMES.len());
        let new_name = if n < NEW_NAMES.len() { NEW_NAMES[n] } else { UPPER[which as usize] };
        if model.rename_sheet_by_index(which, new_name).is_ok() {
            model.evaluate();
            let names = [if which == 0 { new_name } else { "Sheet1" }, if which == 1 { new_name } else { "Sheet2" }, if which == 2 { new_name } else { "Sheet3" }];
            check("C17.values.rename_keeps_values", three_values(&model, names) == before);
        }
    } else {
        let to = any_u32();
        assume(to < 3);
        if model.move_sheet(which, to).is_ok() {
            model.evaluate();
            check("C17.values.move_keeps_values", three_values(&model, ["Sheet1", "Sheet2", "Sheet3"]) == before);
        }
    }
    reach("C17.values");
}

// ---- C27: sheet names stay unique ignoring case (also for letters outside ASCII) under rename
const C27_NAMES: [&str; 7] = ["ÉTÉ", "été", "Été", "New", "sheet3", "SHEET3", "Sheet2"];
pub fn h_c27_sheet_names_unique_after_rename() {
    let mut model = model_from_workbook(workbook_with_cells(vec![empty_sheet("été", 1), empty_sheet("Sheet2", 2), empty_sheet("Sheet3", 3)]));
    let which = any_u32();
    assume(which < 3);
    let n = any_usize_to(C27_NAMES.len() - 1);
    let res = model.rename_sheet_by_index(which, C27_NAMES[n]);
    let names: Vec<String> = model.workbook.worksheets.iter().map(|w| w.get_name().to_uppercase()).collect();
    check("C27.sheet_names.unique_ignoring_case", (names.len() == 3) & (names[0] != names[1]) & (names[0] != names[2]) & (names[1] != names[2]));
    // a rename to the sheet's own name in another case is allowed; a clash with another sheet is refused
    let old = ["ÉTÉ", "SHEET2", "SHEET3"];
    let target = C27_NAMES[n].to_uppercase();
    let clash = ((which != 0) & (target == old[0])) | ((which != 1) & (target == old[1])) | ((which != 2) & (target == old[2]));
    check("C27.sheet_names.clash_is_refused", !clash | res.is_err());
    reach("C27.sheet_names");
}
