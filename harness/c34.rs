//@parent expressions::lexer::util
//! C34 - F4 cycling: the rewrite kernel (`next_state`, `cycle_endpoint`, `cycle_token_text`) on reference
//! token texts assembled from symbolic pieces (sheet prefix, `$` markers, letters of either case, digits),
//! against a reference model written from the property; and on arbitrary ASCII text (touches only `$` and case).
use super::{cycle_endpoint, cycle_token_text, next_state};
use crate::verif::rt::*;

fn any_letter() -> char {
    let b = any_ascii();
    assume(((b'a' <= b) & (b <= b'z')) | ((b'A' <= b) & (b <= b'Z')));
    b as char
}
fn any_digit(first: bool) -> char {
    let b = any_ascii();
    assume((b <= b'9') & (b >= if first { b'1' } else { b'0' }));
    b as char
}

/// one endpoint `[$]letters[$]digits` (kind 0), `[$]letters` (kind 1) or `[$]digits` (kind 2):
/// returns (text as typed, text expected after one F4, text expected after four)
fn any_endpoint(kind: u8) -> (Vec<char>, Vec<char>, Vec<char>) {
    let (ac, ar) = (any_bool(), any_bool());
    let ncol = any_usize_to(2);
    let nrow = any_usize_to(2);
    assume((ncol >= 1) & (nrow >= 1));
    let mut col: Vec<char> = Vec::new();
    let mut i = 0;
    while i < ncol { col.push(any_letter()); i += 1; }
    let mut row: Vec<char> = Vec::new();
    i = 0;
    while i < nrow { row.push(any_digit(i == 0)); i += 1; }
    let upper: Vec<char> = col.iter().map(|c| c.to_ascii_uppercase()).collect();
    let build = |c_abs: bool, r_abs: bool, letters: &Vec<char>| -> Vec<char> {
        let mut t: Vec<char> = Vec::new();
        if kind != 2 { if c_abs { t.push('$'); } t.extend_from_slice(letters); }
        if kind != 1 { if r_abs { t.push('$'); } t.extend_from_slice(&row); }
        t
    };
    // the cycle of the property: A1 -> $A$1 -> A$1 -> $A1 -> A1; column-only and row-only endpoints toggle their one marker
    let (c1, r1) = if kind == 0 {
        if !ac && !ar { (true, true) } else if ac && ar { (false, true) } else if !ac && ar { (true, false) } else { (false, false) }
    } else { (!ac, !ar) };
    (build(ac, ar, &col), build(c1, r1, &upper), build(ac, ar, &upper))
}

fn any_prefix() -> Vec<char> {
    let k = any_u8();
    assume(k < 3);
    let mut p: Vec<char> = Vec::new();
    if k == 1 { p.push(any_letter()); p.push(any_letter()); p.push('!'); }
    if k == 2 { p.push('\''); p.push(any_letter()); p.push(' '); p.push('$'); p.push(any_letter()); p.push('\''); p.push('!'); }
    p
}

/// reference / range token text as the lexer hands it over: [space] [prefix!] endpoint [: endpoint]
pub fn h_c34_token_cycle() {
    let mut text: Vec<char> = Vec::new();
    if any_bool() { text.push(' '); }
    text.extend(any_prefix());
    let mut want1 = text.clone();
    let mut want4 = text.clone();
    let kind = any_u8();
    assume(kind < 3);
    let (a, a1, a4) = any_endpoint(kind);
    text.extend(a); want1.extend(a1); want4.extend(a4);
    if kind != 0 || any_bool() {
        // ranges: both endpoints of the same kind (A1:B2, A:B, 1:2)
        let (b, b1, b4) = any_endpoint(kind);
        text.push(':'); want1.push(':'); want4.push(':');
        text.extend(b); want1.extend(b1); want4.extend(b4);
    }
    let once = cycle_token_text(&text);
    check("C34.token.one_step", once == want1);
    let four = cycle_token_text(&cycle_token_text(&cycle_token_text(&once)));
    check("C34.token.period_four", four == want4);
    reach("C34.token");
}

pub fn h_c34_next_state() {
    let (c, r) = (any_bool(), any_bool());
    let s1 = next_state(c, r);
    let s2 = next_state(s1.0, s1.1);
    let s3 = next_state(s2.0, s2.1);
    let s4 = next_state(s3.0, s3.1);
    check("C34.next_state.period_four", s4 == (c, r));
    check("C34.next_state.four_distinct", (s1 != (c, r)) & (s2 != (c, r)) & (s3 != (c, r)) & (s1 != s2) & (s2 != s3) & (s1 != s3));
    reach("C34.next_state");
}

fn strip_markers_upper(t: &[char]) -> Vec<char> {
    let mut out: Vec<char> = Vec::new();
    let mut i = 0;
    while i < t.len() { if t[i] != '$' { out.push(t[i].to_ascii_uppercase()); } i += 1; }
    out
}

/// any ASCII text: the kernel returns (no panic) and changes nothing but `$` markers and letter case
fn any_text_case(max: usize) {
    let n = any_usize_to(max);
    let mut text: Vec<char> = Vec::new();
    let mut i = 0;
    while i < n { text.push(any_ascii() as char); i += 1; }
    let out = cycle_token_text(&text);
    check("C34.any_text.only_markers_and_case", strip_markers_upper(&out) == strip_markers_upper(&text));
}
pub fn h_c34_any_text() { any_text_case(4); reach("C34.any_text"); }
pub fn ht_c34_any_text6() { any_text_case(6); reach("C34.any_text6"); }
