//@parent expressions::lexer::util
//! C34 - F4 cycling: the rewrite kernel (`next_state`, `cycle_endpoint`, `cycle_token_text`) on reference
//! token texts assembled from symbolic pieces (sheet prefix, `$` markers, letters of either case, digits),
//! against a reference model written from the property; and on arbitrary ASCII text (touches only `$` and case).
use super::{cycle_endpoint, cycle_token_text, next_state};
use crate::verif::rt::*;

fn any_letter() -> char {
    let b = any_ascii();
    assume(((b'a' <= b) & (b <= b'z')) | ((b'A' <= b) & (b <= b'Z')));
    b as char
}
fn any_digit(first: bool) -> char {
    let b = any_ascii();
    assume((b <= b'9') & (b >= if first { b'1' } else { b'0' }));
    b as char
}

/// one endpoint `[$]letters[$]digits` (kind 0), `[$]letters` (kind 1) or `[$]digits` (kind 2):
/// returns (text as typed, text expected after one F4, text expected after four)
fn any_endpoint(kind: u8) -> (Vec<char>, Vec<char>, Vec<char>) {
    let (ac, ar) = (any_bool(), any_bool());
    let ncol = any_usize_to(2);
    let nrow = any_usize_to(2);
    assume((ncol >= 1) & (nrow >= 1));
    let mut col: Vec<char> = Vec::new();
    let mut i = 0;
    while i < ncol { col.push(any_letter()); i += 1; }
    let mut row: Vec<char> = Vec::new();
    i = 0;
    while i < nrow { row.push(any_digit(i == 0)); i += 1; }
    let upper: Vec<char> = col.iter().map(|c| c.to_ascii_uppercase()).collect();
    let build = |c_abs: bool, r_abs: bool, letters: &Vec<char>| -> Vec<char> {
        let mut t: Vec<char> = Vec::new();
        if kind != 2 { if c_abs { t.push('$'); } t.extend_from_slice(letters); }
        if kind != 1 { if r_abs { t.push('$'); } t.extend_from_slice(&row); }
        t
    };
    // the cycle of the property: A1 -> $A$1 -> A$1 -> $A1 -> A1; column-only and row-only endpoints toggle their one marker
    let (c1, r1) = if kind == 0 {
        if !ac && !ar { (true, true) } else if ac && ar { (false, true) } else if !ac && ar { (true, false) } else { (false, false) }
    } else { (!ac, !ar) };
    (build(ac, ar, &col), build(c1, r1, &upper), build(ac, ar, &upper))
}

fn any_prefix() -> Vec<char> {
    let k = any_u8();
    assume(k < 3);
    let mut p: Vec<char> = Vec::new();
    if k == 1 { p.push(any_letter()); p.push(any_letter()); p.push('!'); }
    if k == 2 { p.push('\''); p.push(any_letter()); p.push(' '); p.push('$'); p.push(any_letter()); p.push('\''); p.push('!'); }
    p
}

/// reference / range token text as the lexer hands it over: [space] [prefix!] endpoint [: endpoint]
pub fn h_c34_token_cycle() {
    let mut text: Vec<char> = Vec::new();
    if any_bool() { text.push(' '); }
    text.extend(any_prefix());
    let mut want1 = text.clone();
    let mut want4 = text.clone();
    let kind = any_u8();
    assume(kind < 3);
    let (a, a1, a4) = any_endpoint(kind);
    text.extend(a); want1.extend(a1); want4.extend(a4);
    if kind != 0 || any_bool() {
        // ranges: both endpoints of the same kind (A1:B2, A:B, 1:2)
        let (b, b1, b4) = any_endpoint(kind);
        text.push(':'); want1.push(':'); want4.push(':');
        text.extend(b); want1.extend(b1); want4.extend(b4);
    }
    let once = cycle_token_text(&text);
    check("C34.token.one_step", once == want1);
    let four = cycle_token_text(&cycle_token_text(&cycle_token_text(&once)));
    check("C34.token.period_four", four == want4);
    reach("C34.token");
}

pub fn h_c34_next_state() {
    let (c, r) = (any_bool(), any_bool());
    let s1 = next_state(c, r);
    let s2 = next_state(s1.0, s1.1);
    let s3 = next_state(s2.0, s2.1);
    let s4 = next_state(s3.0, s3.1);
    check("C34.next_state.period_four", s4 == (c, r));
    check("C34.next_state.four_distinct", (s1 != (c, r)) & (s2 != (c, r)) & (s3 != (c, r)) & (s1 != s2) & (s2 != s3) & (s1 != s3));
    reach("C34.next_state");
}

fn strip_markers_upper(t: &[char]) -> Vec<char> {
    let mut out: Vec<char> = Vec::new();
    let mut i = 0;
    while i < t.len() { if t[i] != '$' { out.push(t[i].to_ascii_uppercase()); } i += 1; }
    out
}

/// any ASCII text: the kernel returns (no panic) and changes nothing but `$` markers and letter case
fn any_text_case(max: usize) {
    let n = any_usize_to(max);
    let mut text: Vec<char> = Vec::new();
    let mut i = 0;
    while i < n { text.push(any_ascii() as char); i += 1; }
    let out = cycle_token_text(&text);
    check("C34.any_text.only_markers_and_case", strip_markers_upper(&out) == strip_markers_upper(&text));
}
pub fn h_c34_any_text() { any_text_case(4); reach("C34.any_text"); }
pub fn ht_c34_any_text6() { any_text_case(6); reach("C34.any_text6"); }

// ---------------------------------------------------------------------------------------------
// the whole `cycle_reference` with the real tokenizer: "=<ref1>+<ref2>", any cursor / selection

use super::cycle_reference;
use crate::verif::st::{language_en, locale_with};

fn light_prefix() -> Vec<char> {
    let k = any_u8();
    assume(k < 3);
    let p: &str = if k == 0 { "" } else if k == 1 { "Sh!" } else { "'a $b'!" };
    p.chars().collect()
}
fn push_all(dst: &mut Vec<char>, src: &[char]) { let mut i = 0; while i < src.len() { dst.push(src[i]); i += 1; } }

/// exactly the references the cursor touches are cycled (a cursor grazing an edge counts), nothing else changes,
/// and the returned cursor follows the documented rule
/// endpoint with symbolic `$` markers only (fixed mixed-case letters and digits): (typed, after one F4)
fn light_endpoint(kind: u8, col: &str, row: &str) -> (Vec<char>, Vec<char>, Vec<char>) {
    let (ac, ar) = (any_bool(), any_bool());
    let (c1, r1) = if kind == 0 {
        if !ac && !ar { (true, true) } else if ac && ar { (false, true) } else if !ac && ar { (true, false) } else { (false, false) }
    } else { (!ac, !ar) };
    let mut t: Vec<char> = Vec::new();
    let mut w: Vec<char> = Vec::new();
    if kind != 2 {
        if ac { t.push('$'); } if c1 { w.push('$'); }
        for ch in col.chars() { t.push(ch); w.push(ch.to_ascii_uppercase()); }
    }
    if kind != 1 {
        if ar { t.push('$'); } if r1 { w.push('$'); }
        for ch in row.chars() { t.push(ch); w.push(ch); }
    }
    (t, w, Vec::new())
}

pub fn h_c34_cycle_reference() {
    let k1 = any_u8();
    assume(k1 < 3);
    let (a, a1, _) = light_endpoint(k1, "b", "7");
    // a range needs two endpoints of the same kind; a lone row/column endpoint is not a reference
    let (mut t1, mut w1) = (a.clone(), a1.clone());
    if k1 != 0 || any_bool() {
        let (b, b1, _) = light_endpoint(k1, "Cd", "12");
        t1.push(':'); w1.push(':');
        push_all(&mut t1, &b); push_all(&mut w1, &b1);
    }
    let pre = light_prefix();
    let mut tok1: Vec<char> = pre.clone(); push_all(&mut tok1, &t1);
    let mut want1: Vec<char> = pre.clone(); push_all(&mut want1, &w1);
    let (t2, w2, _) = light_endpoint(0, "x", "9");
    let mut text: Vec<char> = vec!['='];
    push_all(&mut text, &tok1); text.push('+'); push_all(&mut text, &t2);
    let (s1, e1) = (1usize, 1 + tok1.len());
    let (s2, e2) = (e1 + 1, e1 + 1 + t2.len());
    let (start, end) = (any_usize_to(text.len()), any_usize_to(text.len()));
    let (lo, hi) = if start <= end { (start, end) } else { (end, start) };
    let touch1 = !(s1 > hi || lo > e1);
    let touch2 = !(s2 > hi || lo > e2);
    let mut want: Vec<char> = vec!['='];
    push_all(&mut want, if touch1 { &want1 } else { &tok1 });
    let end1_new = want.len();
    want.push('+');
    let start2_new = want.len();
    push_all(&mut want, if touch2 { &w2 } else { &t2 });
    let end2_new = want.len();
    let value: String = text.iter().collect();
    let want_text: String = want.iter().collect();
    let locale = locale_with(".", ",");
    let result = cycle_reference(&value, start, end, &locale, language_en());
    check("C34.cycle_reference.ok", result.is_ok());
    match result {
        Ok((got, gs, ge)) => {
            check("C34.cycle_reference.text", got == want_text);
            if !touch1 && !touch2 {
                check("C34.cycle_reference.cursor_unchanged", (gs, ge) == (start as i32, end as i32));
            } else {
                let last = if touch2 { end2_new } else { end1_new };
                let first = if touch1 { 1 } else { start2_new };
                let want_cursor = if start == end { (last as i32, last as i32) } else { (first as i32, last as i32) };
                check("C34.cycle_reference.cursor", (gs, ge) == want_cursor);
            }
        }
        Err(_) => {}
    }
    reach("C34.cycle_reference");
}

/// non-ASCII text before the reference (cursor positions are counted in characters, the text is stored in bytes):
/// `="é"&A1+1` / `='Año'!A1+B2` with the cursor anywhere in or at the edges of the first reference
pub fn h_c34_cycle_reference_after_non_ascii_text() {
    let quoted_sheet = any_bool();
    let (value, first, last, steps) = if quoted_sheet {
        ("='Año'!A1+B2", 1usize, 9usize, ["='Año'!$A$1+B2", "='Año'!A$1+B2", "='Año'!$A1+B2", "='Año'!A1+B2"])
    } else {
        ("=\"é\"&A1+1", 5usize, 7usize, ["=\"é\"&$A$1+1", "=\"é\"&A$1+1", "=\"é\"&$A1+1", "=\"é\"&A1+1"])
    };
    let cursor = any_usize();
    assume((cursor >= first) & (cursor <= last));
    let locale = locale_with(".", ",");
    let mut text = value.to_string();
    let mut at = cursor;
    let mut ok = true;
    let mut i = 0;
    while i < 4 {
        match cycle_reference(&text, at, at, &locale, language_en()) {
            Ok((t, s, e)) => { ok &= (t == steps[i]) & (s == e) & (s >= 0); text = t; at = s as usize; }
            Err(_) => { ok = false; }
        }
        i += 1;
    }
    check("C34.non_ascii.four_steps_change_only_the_markers", ok);
    reach("C34.non_ascii");
}
