//@parent actions
//! C33 (links / conditional-format ranges follow their cells) and the integer side of C12/C13/C15:
//! the conditional-format displacement kernels against the edit maps the property states.
use super::{displace_cf_col, displace_cf_row};
use crate::constants::{LAST_COLUMN, LAST_ROW};
use crate::expressions::parser::stringify::DisplaceData;
use crate::verif::rt::*;
use crate::verif::st::*;

pub fn h_c33_cf_row_insert() {
    let (sheet, s2) = (any_u32(), any_u32());
    let x = any_i32_in(1, LAST_ROW);
    let p = any_i32_in(1, LAST_ROW);
    let k = any_i32_in(1, LAST_ROW);
    let got = displace_cf_row(x, &DisplaceData::Row { sheet: s2, row: p, delta: k }, sheet);
    let want = if s2 == sheet { Some(pi_insert(x, p, k)) } else { Some(x) };
    check("C33.cf_row.insert", got == want);
    reach("C33.cf_row.insert");
}

pub fn h_c33_cf_row_delete() {
    let (sheet, s2) = (any_u32(), any_u32());
    let x = any_i32_in(1, LAST_ROW);
    let p = any_i32_in(1, LAST_ROW);
    let k = any_i32_in(1, LAST_ROW);
    let got = displace_cf_row(x, &DisplaceData::Row { sheet: s2, row: p, delta: -k }, sheet);
    let want = if s2 == sheet { pi_delete(x, p, k) } else { Some(x) };
    check("C33.cf_row.delete", got == want);
    reach("C33.cf_row.delete");
}

pub fn h_c33_cf_row_move() {
    let (sheet, s2) = (any_u32(), any_u32());
    let x = any_i32_in(1, LAST_ROW);
    let m = any_i32_in(1, LAST_ROW);
    let d = any_i32_in(-LAST_ROW, LAST_ROW);
    assume(d != 0 && 1 <= m + d && m + d <= LAST_ROW);
    let got = displace_cf_row(x, &DisplaceData::RowMove { sheet: s2, row: m, delta: d }, sheet);
    let want = if s2 == sheet { Some(sigma_move(x, m, d)) } else { Some(x) };
    check("C33.cf_row.move", got == want);
    reach("C33.cf_row.move");
}

pub fn h_c33_cf_col_insert() {
    let (sheet, s2) = (any_u32(), any_u32());
    let x = any_i32_in(1, LAST_COLUMN);
    let p = any_i32_in(1, LAST_COLUMN);
    let k = any_i32_in(1, LAST_COLUMN);
    let got = displace_cf_col(x, &DisplaceData::Column { sheet: s2, column: p, delta: k }, sheet);
    let want = if s2 == sheet { Some(pi_insert(x, p, k)) } else { Some(x) };
    check("C33.cf_col.insert", got == want);
    reach("C33.cf_col.insert");
}

pub fn h_c33_cf_col_delete() {
    let (sheet, s2) = (any_u32(), any_u32());
    let x = any_i32_in(1, LAST_COLUMN);
    let p = any_i32_in(1, LAST_COLUMN);
    let k = any_i32_in(1, LAST_COLUMN);
    let got = displace_cf_col(x, &DisplaceData::Column { sheet: s2, column: p, delta: -k }, sheet);
    let want = if s2 == sheet { pi_delete(x, p, k) } else { Some(x) };
    check("C33.cf_col.delete", got == want);
    reach("C33.cf_col.delete");
}

pub fn h_c33_cf_col_move() {
    let (sheet, s2) = (any_u32(), any_u32());
    let x = any_i32_in(1, LAST_COLUMN);
    let m = any_i32_in(1, LAST_COLUMN);
    let d = any_i32_in(-LAST_COLUMN, LAST_COLUMN);
    assume(d != 0 && 1 <= m + d && m + d <= LAST_COLUMN);
    let got = displace_cf_col(x, &DisplaceData::ColumnMove { sheet: s2, column: m, delta: d }, sheet);
    let want = if s2 == sheet { Some(sigma_move(x, m, d)) } else { Some(x) };
    check("C33.cf_col.move", got == want);
    reach("C33.cf_col.move");
}

/// a row edit never displaces a column coordinate and vice versa; unrelated kinds are the identity
pub fn h_c33_cf_cross_axis() {
    let sheet = any_u32();
    let x = any_i32_in(1, LAST_COLUMN);
    let p = any_i32();
    let k = any_i32();
    check("C33.cf_cross.row_edit_keeps_col", displace_cf_col(x, &DisplaceData::Row { sheet, row: p, delta: k }, sheet) == Some(x));
    check("C33.cf_cross.row_move_keeps_col", displace_cf_col(x, &DisplaceData::RowMove { sheet, row: p, delta: k }, sheet) == Some(x));
    check("C33.cf_cross.col_edit_keeps_row", displace_cf_row(x, &DisplaceData::Column { sheet, column: p, delta: k }, sheet) == Some(x));
    check("C33.cf_cross.col_move_keeps_row", displace_cf_row(x, &DisplaceData::ColumnMove { sheet, column: p, delta: k }, sheet) == Some(x));
    check("C33.cf_cross.none", displace_cf_row(x, &DisplaceData::None, sheet) == Some(x) && displace_cf_col(x, &DisplaceData::None, sheet) == Some(x));
    reach("C33.cf_cross");
}
