//@parent actions
//! C33 (links / conditional-format ranges follow their cells) and the integer side of C12/C13/C15:
//! the conditional-format displacement kernels against the edit maps the property states.
use super::{displace_cf_col, displace_cf_row};
use crate::constants::{LAST_COLUMN, LAST_ROW};
use crate::expressions::parser::stringify::DisplaceData;
use crate::verif::rt::*;
use crate::verif::st::*;

pub fn h_c33_cf_row_insert() {
    let (sheet, s2) = (any_u32(), any_u32());
    let x = any_i32_in(1, LAST_ROW);
    let p = any_i32_in(1, LAST_ROW);
    let k = any_i32_in(1, LAST_ROW);
    let got = displace_cf_row(x, &DisplaceData::Row { sheet: s2, row: p, delta: k }, sheet);
    let want = if s2 == sheet { Some(pi_insert(x, p, k)) } else { Some(x) };
    check("C33.cf_row.insert", got == want);
    reach("C33.cf_row.insert");
}

pub fn h_c33_cf_row_delete() {
    let (sheet, s2) = (any_u32(), any_u32());
    let x = any_i32_in(1, LAST_ROW);
    let p = any_i32_in(1, LAST_ROW);
    let k = any_i32_in(1, LAST_ROW);
    let got = displace_cf_row(x, &DisplaceData::Row { sheet: s2, row: p, delta: -k }, sheet);
    let want = if s2 == sheet { pi_delete(x, p, k) } else { Some(x) };
    check("C33.cf_row.delete", got == want);
    reach("C33.cf_row.delete");
}

pub fn h_c33_cf_row_move() {
    let (sheet, s2) = (any_u32(), any_u32());
    let x = any_i32_in(1, LAST_ROW);
    let m = any_i32_in(1, LAST_ROW);
    let d = any_i32_in(-LAST_ROW, LAST_ROW);
    assume((d != 0) & (1 <= m + d) & (m + d <= LAST_ROW));
    let got = displace_cf_row(x, &DisplaceData::RowMove { sheet: s2, row: m, delta: d }, sheet);
    let want = if s2 == sheet { Some(sigma_move(x, m, d)) } else { Some(x) };
    check("C33.cf_row.move", got == want);
    reach("C33.cf_row.move");
}

pub fn h_c33_cf_col_insert() {
    let (sheet, s2) = (any_u32(), any_u32());
    let x = any_i32_in(1, LAST_COLUMN);
    let p = any_i32_in(1, LAST_COLUMN);
    let k = any_i32_in(1, LAST_COLUMN);
    let got = displace_cf_col(x, &DisplaceData::Column { sheet: s2, column: p, delta: k }, sheet);
    let want = if s2 == sheet { Some(pi_insert(x, p, k)) } else { Some(x) };
    check("C33.cf_col.insert", got == want);
    reach("C33.cf_col.insert");
}

pub fn h_c33_cf_col_delete() {
    let (sheet, s2) = (any_u32(), any_u32());
    let x = any_i32_in(1, LAST_COLUMN);
    let p = any_i32_in(1, LAST_COLUMN);
    let k = any_i32_in(1, LAST_COLUMN);
    let got = displace_cf_col(x, &DisplaceData::Column { sheet: s2, column: p, delta: -k }, sheet);
    let want = if s2 == sheet { pi_delete(x, p, k) } else { Some(x) };
    check("C33.cf_col.delete", got == want);
    reach("C33.cf_col.delete");
}

pub fn h_c33_cf_col_move() {
    let (sheet, s2) = (any_u32(), any_u32());
    let x = any_i32_in(1, LAST_COLUMN);
    let m = any_i32_in(1, LAST_COLUMN);
    let d = any_i32_in(-LAST_COLUMN, LAST_COLUMN);
    assume((d != 0) & (1 <= m + d) & (m + d <= LAST_COLUMN));
    let got = displace_cf_col(x, &DisplaceData::ColumnMove { sheet: s2, column: m, delta: d }, sheet);
    let want = if s2 == sheet { Some(sigma_move(x, m, d)) } else { Some(x) };
    check("C33.cf_col.move", got == want);
    reach("C33.cf_col.move");
}

/// a row edit never displaces a column coordinate and vice versa; unrelated kinds are the identity
pub fn h_c33_cf_cross_axis() {
    let sheet = any_u32();
    let x = any_i32_in(1, LAST_COLUMN);
    let p = any_i32();
    let k = any_i32();
    check("C33.cf_cross.row_edit_keeps_col", displace_cf_col(x, &DisplaceData::Row { sheet, row: p, delta: k }, sheet) == Some(x));
    check("C33.cf_cross.row_move_keeps_col", displace_cf_col(x, &DisplaceData::RowMove { sheet, row: p, delta: k }, sheet) == Some(x));
    check("C33.cf_cross.col_edit_keeps_row", displace_cf_row(x, &DisplaceData::Column { sheet, column: p, delta: k }, sheet) == Some(x));
    check("C33.cf_cross.col_move_keeps_row", displace_cf_row(x, &DisplaceData::ColumnMove { sheet, column: p, delta: k }, sheet) == Some(x));
    check("C33.cf_cross.none", displace_cf_row(x, &DisplaceData::None, sheet) == Some(x) && displace_cf_col(x, &DisplaceData::None, sheet) == Some(x));
    reach("C33.cf_cross");
}

// ------------------------------------------------------------------------------------------- C14
/// insert k lines at p then delete those k lines: identity on every CF coordinate not pushed off the grid
pub fn h_c14_cf_row_insert_delete() {
    let sheet = any_u32();
    let x = any_i32_in(1, LAST_ROW);
    let p = any_i32_in(1, LAST_ROW);
    let k = any_i32_in(1, LAST_ROW);
    let y = displace_cf_row(x, &DisplaceData::Row { sheet, row: p, delta: k }, sheet);
    check("C14.cf_row.insert_drops_nothing", y.is_some());
    if let Some(y) = y {
        assume(y <= LAST_ROW);
        check("C14.cf_row.identity", displace_cf_row(y, &DisplaceData::Row { sheet, row: p, delta: -k }, sheet) == Some(x));
    }
    reach("C14.cf_row");
}

pub fn h_c14_cf_col_insert_delete() {
    let sheet = any_u32();
    let x = any_i32_in(1, LAST_COLUMN);
    let p = any_i32_in(1, LAST_COLUMN);
    let k = any_i32_in(1, LAST_COLUMN);
    let y = displace_cf_col(x, &DisplaceData::Column { sheet, column: p, delta: k }, sheet);
    check("C14.cf_col.insert_drops_nothing", y.is_some());
    if let Some(y) = y {
        assume(y <= LAST_COLUMN);
        check("C14.cf_col.identity", displace_cf_col(y, &DisplaceData::Column { sheet, column: p, delta: -k }, sheet) == Some(x));
    }
    reach("C14.cf_col");
}

// ------------------------------------------------------------------------------------------- C15
/// the permutation the property states for moving the block [b, b+n-1] by d
fn block_move(x: i32, b: i32, n: i32, d: i32) -> i32 {
    if b <= x && x < b + n { x + d }
    else if d > 0 && b + n <= x && x < b + n + d { x - n }
    else if d < 0 && b + d <= x && x < b { x + n }
    else { x }
}

/// chain of single-row moves in the order move_rows_action issues them (last line first for d > 0)
fn chain_rows(x: i32, b: i32, n: i32, d: i32, sheet: u32) -> Option<i32> {
    let mut cur = Some(x);
    let mut i = 0;
    while i < n {
        let line = if d > 0 { b + n - 1 - i } else { b + i };
        cur = match cur { Some(v) => displace_cf_row(v, &DisplaceData::RowMove { sheet, row: line, delta: d }, sheet), None => None };
        i += 1;
    }
    cur
}

fn chain_cols(x: i32, b: i32, n: i32, d: i32, sheet: u32) -> Option<i32> {
    let mut cur = Some(x);
    let mut i = 0;
    while i < n {
        let line = if d > 0 { b + n - 1 - i } else { b + i };
        cur = match cur { Some(v) => displace_cf_col(v, &DisplaceData::ColumnMove { sheet, column: line, delta: d }, sheet), None => None };
        i += 1;
    }
    cur
}

fn block_rows(maxn: i32) {
    let sheet = any_u32();
    let x = any_i32_in(1, LAST_ROW);
    let b = any_i32_in(1, LAST_ROW);
    let n = any_i32_in(1, maxn);
    let d = any_i32_in(-LAST_ROW, LAST_ROW);
    assume((d != 0) & (b + n - 1 <= LAST_ROW) & (1 <= b + d) & (b + n - 1 + d <= LAST_ROW));
    check("C15.block_rows.permutation", chain_rows(x, b, n, d, sheet) == Some(block_move(x, b, n, d)));
    reach("C15.block_rows");
}

fn block_cols(maxn: i32) {
    let sheet = any_u32();
    let x = any_i32_in(1, LAST_COLUMN);
    let b = any_i32_in(1, LAST_COLUMN);
    let n = any_i32_in(1, maxn);
    let d = any_i32_in(-LAST_COLUMN, LAST_COLUMN);
    assume((d != 0) & (b + n - 1 <= LAST_COLUMN) & (1 <= b + d) & (b + n - 1 + d <= LAST_COLUMN));
    check("C15.block_cols.permutation", chain_cols(x, b, n, d, sheet) == Some(block_move(x, b, n, d)));
    reach("C15.block_cols");
}

pub fn h_c15_cf_block_rows() { block_rows(2) }
pub fn h_c15_cf_block_cols() { block_cols(2) }
pub fn ht_c15_cf_block_rows3() { block_rows(3) }
pub fn ht_c15_cf_block_cols3() { block_cols(3) }
