//! C10 - switching the display language or the locale changes no stored formula and no value, and a formula shown in
//! the new language / locale and typed back there is the same stored formula.  Real parser, printers and evaluator;
//! the language tables are the engine's own (read through the native probe), the de locale is hand-built.
use super::rt::*;
use super::st::*;
use crate::cell::CellValue;
use crate::model::Model;
use crate::types::*;
use std::collections::HashMap;

const FORMULAS: [&str; 5] = ["=SUM(A1,2.5)+IF(A1>1,10,20)", "=AND(TRUE,A1=1.5)", "=A1*2&\"x\"", "=IFERROR(A1/0,MAX(A1,3))", "=IFERROR(#VALUE!,3)+IF(ISERROR(#N/A),1,2)"];
const LANGS: [&str; 4] = ["de", "es", "fr", "it"];

fn model_with_formulas() -> Option<Model<'static>> {
    let mut ws = empty_sheet("Sheet1", 1);
    let mut row: HashMap<i32, Cell> = HashMap::new();
    row.insert(1, Cell::NumberCell { v: 1.5, s: 0 });
    ws.sheet_data.insert(1, row);
    let mut model = model_from_workbook(workbook_with_cells(vec![ws]));
    let mut i = 0;
    while i < FORMULAS.len() {
        if model.set_user_input(0, 2, i as i32 + 1, FORMULAS[i].to_string()).is_err() { return None; }
        i += 1;
    }
    model.evaluate();
    Some(model)
}
fn values(m: &Model) -> [Result<CellValue, String>; 5] {
    [m.get_cell_value_by_index(0, 2, 1), m.get_cell_value_by_index(0, 2, 2), m.get_cell_value_by_index(0, 2, 3), m.get_cell_value_by_index(0, 2, 4), m.get_cell_value_by_index(0, 2, 5)]
}
fn stored(m: &Model) -> Vec<String> { m.workbook.worksheets[0].shared_formulas.clone() }
fn shown(m: &Model) -> [String; 5] {
    let f = |c: i32| m.get_cell_formula(0, 2, c).unwrap_or(None).unwrap_or_default();
    [f(1), f(2), f(3), f(4), f(5)]
}

/// switch the language (solver chooses which), or the locale to de, or both
pub fn h_c10_language_and_locale_switch() {
    let entered = model_with_formulas();
    check("C10.entered", entered.is_some());
    let mut model = match entered { Some(m) => m, None => return };
    let (vals0, stored0, shown0) = (values(&model), stored(&model), shown(&model));
    check("C10.values_before", (vals0[0] == Ok(CellValue::Number(14.0))) & (vals0[1] == Ok(CellValue::Boolean(true))) & (vals0[2] == Ok(CellValue::String("3x".to_string()))) & (vals0[3] == Ok(CellValue::Number(3.0))) & (vals0[4] == Ok(CellValue::Number(4.0))));
    let (switch_language, switch_locale) = (any_bool(), any_bool());
    assume(switch_language | switch_locale);
    let l = any_usize_to(LANGS.len() - 1);
    if switch_language { check("C10.language_accepted", model.set_language(LANGS[l]).is_ok()); }
    if switch_locale { check("C10.locale_accepted", model.set_locale("de").is_ok()); }
    model.evaluate();
    check("C10.switch.stored_formulas_unchanged", stored(&model) == stored0);
    check("C10.switch.values_unchanged", values(&model) == vals0);
    // what is shown now, typed back in the new language / locale, is the same formula
    let now = shown(&model);
    let mut ok = true;
    let mut i = 0;
    while i < 5 { ok &= model.set_user_input(0, 2, i as i32 + 1, now[i].clone()).is_ok(); i += 1; }
    model.evaluate();
    check("C10.reenter.accepted", ok);
    check("C10.reenter.stored_formulas_unchanged", stored(&model) == stored0);
    check("C10.reenter.values_unchanged", values(&model) == vals0);
    // and back: the original texts are shown again
    if switch_language { check("C10.back.language_accepted", model.set_language("en").is_ok()); }
    if switch_locale { check("C10.back.locale_accepted", model.set_locale("en").is_ok()); }
    check("C10.back.same_text_as_typed", shown(&model) == shown0);
    reach("C10.switch");
}
