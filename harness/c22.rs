//! C22 - column letters <-> column numbers are bijective over the whole grid.
use super::rt::*;
use crate::constants::LAST_COLUMN;
use crate::expressions::utils::{column_to_number, number_to_column};

/// every column number prints to letters that parse back to it; everything else is rejected
pub fn h_c22_num_to_col_to_num() {
    let n = any_i32();
    match number_to_column(n) {
        Some(s) => {
            check("C22.num.accepts_only_grid", 1 <= n && n <= LAST_COLUMN);
            check("C22.num.len", 1 <= s.len() && s.len() <= 3);
            check("C22.num.roundtrip", column_to_number(&s) == Ok(n));
        }
        None => check("C22.num.rejects_only_offgrid", n < 1 || n > LAST_COLUMN),
    }
    reach("C22.num");
}

/// every ASCII string of length <= 4: accepted iff 1-3 uppercase letters not beyond XFD, and then it
/// prints back to the same letters (so the map is injective and onto the accepted strings)
pub fn h_c22_col_to_num_to_col() {
    let s = any_ascii_string(4);
    let b = s.as_bytes();
    let mut upper = true;
    let mut v: i32 = 0;
    let mut i = 0;
    while i < b.len() {
        if !(b'A' <= b[i] && b[i] <= b'Z') { upper = false; } else { v = v * 26 + (b[i] as i32 - 64); }
        i += 1;
    }
    let valid = upper && b.len() >= 1 && v <= LAST_COLUMN;
    match column_to_number(&s) {
        Ok(n) => {
            check("C22.str.accepts_only_valid", valid);
            check("C22.str.value", n == v);
            check("C22.str.roundtrip", number_to_column(n) == Some(s.clone()));
        }
        Err(_) => check("C22.str.rejects_only_invalid", !valid),
    }
    reach("C22.str");
}
