//! C22 - column letters <-> column numbers are bijective over the whole grid.
use super::rt::*;
use crate::constants::LAST_COLUMN;
use crate::expressions::utils::{column_to_number, number_to_column};

/// every column number prints to letters that parse back to it; everything else is rejected
pub fn h_c22_num_to_col_to_num() {
    let n = any_i32();
    match number_to_column(n) {
        Some(s) => {
            check("C22.num.accepts_only_grid", 1 <= n && n <= LAST_COLUMN);
            check("C22.num.len", 1 <= s.len() && s.len() <= 3);
            check("C22.num.roundtrip", column_to_number(&s) == Ok(n));
        }
        None => check("C22.num.rejects_only_offgrid", n < 1 || n > LAST_COLUMN),
    }
    reach("C22.num");
}

/// every ASCII string of length <= 4: accepted iff 1-3 uppercase letters not beyond XFD, and then it
/// prints back to the same letters (so the map is injective and onto the accepted strings)
pub fn h_c22_col_to_num_to_col() {
    let s = any_ascii_string(4);
    let b = s.as_bytes();
    let mut upper = true;
    let mut v: i32 = 0;
    let mut i = 0;
    while i < b.len() {
        if !(b'A' <= b[i] && b[i] <= b'Z') { upper = false; } else { v = v * 26 + (b[i] as i32 - 64); }
        i += 1;
    }
    let valid = upper && b.len() >= 1 && v <= LAST_COLUMN;
    match column_to_number(&s) {
        Ok(n) => {
            check("C22.str.accepts_only_valid", valid);
            check("C22.str.value", n == v);
            check("C22.str.roundtrip", number_to_column(n) == Some(s.clone()));
        }
        Err(_) => check("C22.str.rejects_only_invalid", !valid),
    }
    reach("C22.str");
}

// ---- reference and range addresses: print (display A1 form and stored R1C1 form) -> real lexer + parser -> same node
use super::st::*;
use crate::expressions::lexer::LexerMode;
use crate::expressions::parser::stringify::{to_localized_string, to_rc_format};
use crate::expressions::parser::{Node, Parser};
use crate::expressions::types::CellReferenceRC;
use std::collections::HashMap;

const CTX_ROW: i32 = 5;
const CTX_COL: i32 = 5;

fn print_parse(node: &Node, display: bool) -> Node {
    let locale = locale_with(".", ",");
    let ctx = CellReferenceRC { sheet: "Sheet1".to_string(), row: CTX_ROW, column: CTX_COL };
    let mut parser = Parser::new(vec!["Sheet1".to_string()], vec![], HashMap::new(), &locale, language_en());
    let text = if display { to_localized_string(node, &ctx, &locale, language_en()) } else { to_rc_format(node) };
    parser.set_lexer_mode(if display { LexerMode::A1 } else { LexerMode::R1C1 });
    parser.parse(&text, &ctx)
}
fn pick_row(i: u8) -> i32 { if i == 0 { 1 } else if i == 1 { 2 } else if i == 2 { CTX_ROW + 1 } else if i == 3 { 1_048_575 } else { 1_048_576 } }
fn pick_col(i: u8) -> i32 { if i == 0 { 1 } else if i == 1 { 2 } else if i == 2 { CTX_COL + 1 } else if i == 3 { 16_383 } else { 16_384 } }

/// a single cell address at the corners / next to the formula cell / ordinary, every `$` combination, both text forms
fn reference_roundtrip(display: bool, id: &'static str) {
    let (ri, ci) = (any_u8(), any_u8());
    assume((ri < 5) & (ci < 5));
    let (absolute_row, absolute_column) = (any_bool(), any_bool());
    let (r, c) = (pick_row(ri), pick_col(ci));
    let node = Node::ReferenceKind {
        sheet_name: None, sheet_index: 0, absolute_row, absolute_column,
        row: if absolute_row { r } else { r - CTX_ROW },
        column: if absolute_column { c } else { c - CTX_COL },
    };
    check(id, print_parse(&node, display) == node);
}
pub fn h_c22_reference_display_form() { reference_roundtrip(true, "C22.reference.display_form_parses_back"); reach("C22.reference.display"); }
pub fn h_c22_reference_stored_form() { reference_roundtrip(false, "C22.reference.stored_form_parses_back"); reach("C22.reference.stored"); }

/// a range whose corners come from {whole grid, from the line after the formula cell to the last line, from the first
/// line, two ordinary lines, one line}, every `$` combination on the four coordinates, both text forms
fn range_roundtrip(display: bool, id: &'static str) {
    let (rp, cp) = (any_u8(), any_u8());
    assume((rp < 5) & (cp < 4));
    let (r1, r2) = if rp == 0 { (1, 1_048_576) } else if rp == 1 { (CTX_ROW + 1, 1_048_576) } else if rp == 2 { (1, CTX_ROW + 1) }
        else if rp == 3 { (2, 1_048_575) } else { (CTX_ROW + 1, CTX_ROW + 1) };
    let (c1, c2) = if cp == 0 { (1, 16_384) } else if cp == 1 { (CTX_COL + 1, 16_384) } else if cp == 2 { (1, CTX_COL + 1) } else { (2, 3) };
    let (absolute_row1, absolute_column1, absolute_row2, absolute_column2) = (any_bool(), any_bool(), any_bool(), any_bool());
    let node = Node::RangeKind {
        sheet_name: None, sheet_index: 0, absolute_row1, absolute_column1, absolute_row2, absolute_column2,
        row1: if absolute_row1 { r1 } else { r1 - CTX_ROW },
        column1: if absolute_column1 { c1 } else { c1 - CTX_COL },
        row2: if absolute_row2 { r2 } else { r2 - CTX_ROW },
        column2: if absolute_column2 { c2 } else { c2 - CTX_COL },
    };
    check(id, print_parse(&node, display) == node);
}
pub fn h_c22_range_display_form() { range_roundtrip(true, "C22.range.display_form_parses_back"); reach("C22.range.display"); }
pub fn h_c22_range_stored_form() { range_roundtrip(false, "C22.range.stored_form_parses_back"); reach("C22.range.stored"); }
