//! C29 - row and column attributes change independently.
use super::rt::*;
use super::st::*;
use crate::constants::{COLUMN_WIDTH_FACTOR, DEFAULT_COLUMN_WIDTH};
use crate::types::*;

#[derive(Clone, Copy, PartialEq)]
struct ColAttr { width: f64, hidden: bool, style: Option<i32> }

fn col_attr(ws: &Worksheet, c: i32) -> ColAttr {
    ColAttr {
        width: ws.get_actual_column_width(c).unwrap(),
        hidden: ws.is_column_hidden(c).unwrap(),
        style: ws.get_column_style(c).unwrap(),
    }
}

const NCOLS: usize = 2;

pub fn h_c29_col_width() {
    let mut ws = sheet_with(any_cols(NCOLS), vec![]);
    let c = any_col_index();
    let o = any_col_index();
    assume(o != c);
    let w = any_f64();
    assume(w >= 0.0 && w <= MAX_W * COLUMN_WIDTH_FACTOR);
    let before_c = col_attr(&ws, c);
    let before_o = col_attr(&ws, o);
    let r = ws.set_column_width(c, w);
    check("C29.col_width.ok", r.is_ok());
    let after_c = col_attr(&ws, c);
    let after_o = col_attr(&ws, o);
    check("C29.col_width.frame_other", before_o == after_o);
    check("C29.col_width.keeps_hidden", before_c.hidden == after_c.hidden);
    check("C29.col_width.keeps_style", before_c.style == after_c.style);
    let expect = if w != DEFAULT_COLUMN_WIDTH { (w / COLUMN_WIDTH_FACTOR) * COLUMN_WIDTH_FACTOR } else { DEFAULT_COLUMN_WIDTH };
    check("C29.col_width.applied", after_c.width == expect);
    check("C29.col_width.wf", cols_well_formed(&ws.cols));
    reach("C29.col_width");
}
