//! C29 - row and column attributes change independently; C27 - descriptors stay well-formed.
//! One setter call from an arbitrary well-formed descriptor layout (inductive step), frame and effect
//! conditions read through the real getters at a symbolic probe column/row.
use super::rt::*;
use super::st::*;
use crate::types::*;

const NCOLS: usize = 2;
const NROWS: usize = 2;

/// stored width record of the descriptor covering column c (None: default width)
fn col_width_rec(ws: &Worksheet, c: i32) -> Option<(f64, bool)> {
    let mut i = 0;
    while i < ws.cols.len() {
        if ws.cols[i].min <= c && c <= ws.cols[i].max { return Some((ws.cols[i].width, ws.cols[i].custom_width)); }
        i += 1;
    }
    None
}

fn row_rec(ws: &Worksheet, r: i32) -> Option<(f64, bool, i32, bool, bool)> {
    let mut i = 0;
    while i < ws.rows.len() {
        if ws.rows[i].r == r { let x = &ws.rows[i]; return Some((x.height, x.custom_height, x.s, x.custom_format, x.hidden)); }
        i += 1;
    }
    None
}

/// is column c covered by a descriptor spanning several columns?
fn in_multi_col_descriptor(ws: &Worksheet, c: i32) -> bool {
    let mut i = 0;
    while i < ws.cols.len() {
        if ws.cols[i].min <= c && c <= ws.cols[i].max { return ws.cols[i].min != ws.cols[i].max; }
        i += 1;
    }
    false
}

/// the height the row has when it is not hidden (what `row_height` shows after unhide), in pixels
fn row_actual_height(ws: &Worksheet, r: i32) -> f64 {
    let mut i = 0;
    while i < ws.rows.len() {
        if ws.rows[i].r == r { return ws.rows[i].height * crate::constants::ROW_HEIGHT_FACTOR; }
        i += 1;
    }
    crate::constants::DEFAULT_ROW_HEIGHT
}

fn row_style(ws: &Worksheet, r: i32) -> Option<(i32, bool)> {
    let mut i = 0;
    while i < ws.rows.len() {
        if ws.rows[i].r == r { return Some((ws.rows[i].s, ws.rows[i].custom_format)); }
        i += 1;
    }
    // no record: default style, exactly what a fresh record (s = 0, custom_format = false) reads as
    Some((0, false))
}

fn two_cols_fixed_w() -> (Worksheet, i32, i32) {
    let ws = sheet_with(any_cols_fixed_w(NCOLS), vec![]);
    let c = any_col_index();
    let o = any_col_index();
    assume(o != c);
    (ws, c, o)
}

fn two_cols() -> (Worksheet, i32, i32) {
    let ws = sheet_with(any_cols(NCOLS), vec![]);
    let c = any_col_index();
    let o = any_col_index();
    assume(o != c);
    (ws, c, o)
}

pub fn h_c29_col_hidden() {
    let (mut ws, c, o) = two_cols_fixed_w();
    let hidden = any_bool();
    let before_o = (ws.is_column_hidden(o), ws.get_column_style(o), col_width_rec(&ws, o));
    let style_c = ws.get_column_style(c);
    let width_c = ws.get_actual_column_width(c);
    let r = ws.set_column_hidden(c, hidden);
    check("C29.col_hidden.ok", r.is_ok());
    check("C29.col_hidden.keeps_width", ws.get_actual_column_width(c) == width_c);
    check("C29.col_hidden.applied", ws.is_column_hidden(c) == Ok(hidden));
    check("C29.col_hidden.keeps_style", ws.get_column_style(c) == style_c);
    check("C29.col_hidden.frame_other", before_o == (ws.is_column_hidden(o), ws.get_column_style(o), col_width_rec(&ws, o)));
    check("C27.col_hidden.wf", cols_well_formed(&ws.cols));
    reach("C29.col_hidden");
}

pub fn h_c29_col_style() {
    let (mut ws, c, o) = two_cols_fixed_w();
    let style = any_i32();
    let before_o = (ws.is_column_hidden(o), ws.get_column_style(o), col_width_rec(&ws, o));
    let hidden_c = ws.is_column_hidden(c);
    let width_c = ws.get_actual_column_width(c);
    let r = ws.set_column_style(c, style);
    check("C29.col_style.ok", r.is_ok());
    check("C29.col_style.keeps_width", ws.get_actual_column_width(c) == width_c);
    check("C29.col_style.applied", ws.get_column_style(c) == Ok(Some(style)));
    // C30: a style assigned to a column is read back for that column and for no other
    check("C30.col_style.read_back", ws.get_column_style(c) == Ok(Some(style)));
    check("C30.col_style.not_shared", ws.get_column_style(o) == before_o.1);
    check("C29.col_style.keeps_hidden", ws.is_column_hidden(c) == hidden_c);
    check("C29.col_style.frame_other", before_o == (ws.is_column_hidden(o), ws.get_column_style(o), col_width_rec(&ws, o)));
    check("C27.col_style.wf", cols_well_formed(&ws.cols));
    reach("C29.col_style");
}

/// styling a *hidden* column must not destroy its width (seen again after unhide)
pub fn h_c29_col_style_hidden_width() {
    let (mut ws, c, _o) = two_cols_fixed_w();
    assume(ws.is_column_hidden(c) == Ok(true));
    let before = ws.get_actual_column_width(c);
    let r = ws.set_column_style(c, any_i32());
    check("C29.col_style_hidden.ok", r.is_ok());
    check("C29.col_style_hidden.keeps_width", ws.get_actual_column_width(c) == before);
    reach("C29.col_style_hidden");
}

pub fn h_c29_col_delete_style() {
    let (mut ws, c, o) = two_cols();
    let before_o = (ws.is_column_hidden(o), ws.get_column_style(o), col_width_rec(&ws, o));
    let hidden_c = ws.is_column_hidden(c);
    let width_a = ws.get_actual_column_width(c);
    let r = ws.delete_column_style(c);
    check("C29.col_delete_style.ok", r.is_ok());
    check("C29.col_delete_style.applied", ws.get_column_style(c) == Ok(None));
    check("C29.col_delete_style.keeps_width", ws.get_actual_column_width(c) == width_a);
    check("C29.col_delete_style.keeps_hidden", ws.is_column_hidden(c) == hidden_c);
    check("C29.col_delete_style.frame_other", before_o == (ws.is_column_hidden(o), ws.get_column_style(o), col_width_rec(&ws, o)));
    check("C27.col_delete_style.wf", cols_well_formed(&ws.cols));
    reach("C29.col_delete_style");
}

pub fn h_c29_col_width() {
    let (mut ws, c, o) = two_cols();
    let w = any_f64();
    assume((w >= 0.0) & (w <= MAX_W));
    let before_o = (ws.is_column_hidden(o), ws.get_column_style(o), col_width_rec(&ws, o));
    let hidden_c = ws.is_column_hidden(c);
    let style_c = ws.get_column_style(c);
    let r = ws.set_column_width(c, w);
    check("C29.col_width.ok", r.is_ok());
    check("C29.col_width.keeps_hidden", ws.is_column_hidden(c) == hidden_c);
    check("C29.col_width.keeps_style", ws.get_column_style(c) == style_c);
    check("C29.col_width.frame_other", before_o == (ws.is_column_hidden(o), ws.get_column_style(o), col_width_rec(&ws, o)));
    check("C27.col_width.wf", cols_well_formed(&ws.cols));
    reach("C29.col_width");
}

fn two_rows() -> (Worksheet, i32, i32) {
    let ws = sheet_with(vec![], any_rows(NROWS));
    let r = any_row_index();
    let o = any_row_index();
    assume(o != r);
    (ws, r, o)
}

pub fn h_c29_row_hidden() {
    let (mut ws, r, o) = two_rows();
    let hidden = any_bool();
    let before_o = (ws.is_row_hidden(o), row_style(&ws, o), row_rec(&ws, o));
    let style_r = row_style(&ws, r);
    let height_r = row_actual_height(&ws, r);
    let res = ws.set_row_hidden(r, hidden);
    check("C29.row_hidden.ok", res.is_ok());
    check("C29.row_hidden.keeps_height", row_actual_height(&ws, r) == height_r);
    check("C29.row_hidden.applied", ws.is_row_hidden(r) == Ok(hidden));
    check("C29.row_hidden.keeps_style", row_style(&ws, r) == style_r);
    check("C29.row_hidden.frame_other", before_o == (ws.is_row_hidden(o), row_style(&ws, o), row_rec(&ws, o)));
    check("C27.row_hidden.wf", rows_well_formed(&ws.rows));
    reach("C29.row_hidden");
}

pub fn h_c29_row_style() {
    let (mut ws, r, o) = two_rows();
    let style = any_i32();
    let before_o = (ws.is_row_hidden(o), row_style(&ws, o), row_rec(&ws, o));
    let hidden_r = ws.is_row_hidden(r);
    let height_r = row_actual_height(&ws, r);
    let res = ws.set_row_style(r, style);
    check("C29.row_style.ok", res.is_ok());
    check("C29.row_style.keeps_height", row_actual_height(&ws, r) == height_r);
    check("C29.row_style.applied", row_style(&ws, r) == Some((style, style != 0)));
    check("C30.row_style.read_back", row_style(&ws, r) == Some((style, style != 0)));
    check("C30.row_style.not_shared", row_style(&ws, o) == before_o.1);
    check("C29.row_style.keeps_hidden", ws.is_row_hidden(r) == hidden_r);
    check("C29.row_style.frame_other", before_o == (ws.is_row_hidden(o), row_style(&ws, o), row_rec(&ws, o)));
    check("C27.row_style.wf", rows_well_formed(&ws.rows));
    reach("C29.row_style");
}

pub fn h_c29_row_height() {
    let (mut ws, r, o) = two_rows();
    let h = any_f64();
    assume((h >= 0.0) & (h <= MAX_W));
    let before_o = (ws.is_row_hidden(o), row_style(&ws, o), row_rec(&ws, o));
    let hidden_r = ws.is_row_hidden(r);
    let style_r = row_style(&ws, r);
    let res = ws.set_row_height(r, h);
    check("C29.row_height.ok", res.is_ok());
    check("C29.row_height.keeps_hidden", ws.is_row_hidden(r) == hidden_r);
    check("C29.row_height.keeps_style", row_style(&ws, r) == style_r);
    check("C29.row_height.frame_other", before_o == (ws.is_row_hidden(o), row_style(&ws, o), row_rec(&ws, o)));
    check("C27.row_height.wf", rows_well_formed(&ws.rows));
    reach("C29.row_height");
}
