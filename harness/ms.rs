//! Sheet furniture under structural edits, at `Model` level (the real `Model::insert_*/delete_*/move_*`
//! on cell-free sheets): column descriptors, row records and hyperlinks follow the edit map of the
//! property (C12, C13, C14, C15, C33) and stay well-formed (C27).
use super::rt::*;
use super::st::*;
use crate::constants::{LAST_COLUMN, LAST_ROW};
use crate::model::Model;
use crate::types::*;

fn model_cols_links(ncols: usize, nlinks: usize) -> Model<'static> {
    let mut ws = sheet_with(any_cols(ncols), vec![]);
    ws.links = any_links(nlinks);
    model_from_workbook(workbook_with(vec![ws], 0))
}
fn model_rows_links(nrows: usize, nlinks: usize) -> Model<'static> {
    let mut ws = sheet_with(vec![], any_rows(nrows));
    ws.links = any_links(nlinks);
    model_from_workbook(workbook_with(vec![ws], 0))
}

// ------------------------------------------------------------------------------------- C12 insert

pub fn h_c12_model_insert_columns() {
    let mut model = model_cols_links(2, 1);
    let p = any_col_index();
    let k = any_i32_in(1, LAST_COLUMN);
    let x = any_col_index();
    let before = model.workbook.worksheets[0].cols.clone();
    let l0 = link_key(&model.workbook.worksheets[0].links, "L0");
    if model.insert_columns(0, p, k).is_ok() {
        let ws = &model.workbook.worksheets[0];
        check("C12.model_insert_columns.descriptor_follows", col_attrs_carried(&before, x, &ws.cols, pi_insert(x, p, k)));
        let want = match l0 { Some((r, c)) => Some((r, pi_insert(c, p, k))), None => None };
        check("C12.model_insert_columns.link_follows", link_key(&ws.links, "L0") == want);
        check("C12.model_insert_columns.link_count", ws.links.len() == if l0.is_some() { 1 } else { 0 });
    }
    reach("C12.model_insert_columns");
}

pub fn h_c12_model_insert_rows() {
    let mut model = model_rows_links(2, 1);
    let p = any_row_index();
    let k = any_i32_in(1, LAST_ROW);
    let x = any_row_index();
    let before = model.workbook.worksheets[0].rows.clone();
    let l0 = link_key(&model.workbook.worksheets[0].links, "L0");
    if model.insert_rows(0, p, k).is_ok() {
        let ws = &model.workbook.worksheets[0];
        check("C12.model_insert_rows.record_follows", row_attrs_carried(&before, x, &ws.rows, pi_insert(x, p, k)));
        let want = match l0 { Some((r, c)) => Some((pi_insert(r, p, k), c)), None => None };
        check("C12.model_insert_rows.link_follows", link_key(&ws.links, "L0") == want);
        check("C12.model_insert_rows.link_count", ws.links.len() == if l0.is_some() { 1 } else { 0 });
    }
    reach("C12.model_insert_rows");
}

// ------------------------------------------------------------------------------------- C13 delete

pub fn h_c13_model_delete_columns() {
    let mut model = model_cols_links(2, 1);
    let p = any_col_index();
    let k = any_i32_in(1, LAST_COLUMN);
    let x = any_col_index();
    let before = model.workbook.worksheets[0].cols.clone();
    let l0 = link_key(&model.workbook.worksheets[0].links, "L0");
    if model.delete_columns(0, p, k).is_ok() {
        let ws = &model.workbook.worksheets[0];
        if let Some(y) = pi_delete(x, p, k) {
            check("C13.model_delete_columns.descriptor_follows", col_attrs_carried(&before, x, &ws.cols, y));
        }
        let want = match l0 { Some((r, c)) => pi_delete(c, p, k).map(|c2| (r, c2)), None => None };
        check("C13.model_delete_columns.link_follows", link_key(&ws.links, "L0") == want);
        check("C13.model_delete_columns.link_count", ws.links.len() == if want.is_some() { 1 } else { 0 });
    }
    reach("C13.model_delete_columns");
}

pub fn h_c13_model_delete_rows() {
    let mut model = model_rows_links(2, 1);
    let p = any_row_index();
    let k = any_i32_in(1, LAST_ROW);
    let x = any_row_index();
    let before = model.workbook.worksheets[0].rows.clone();
    let l0 = link_key(&model.workbook.worksheets[0].links, "L0");
    if model.delete_rows(0, p, k).is_ok() {
        let ws = &model.workbook.worksheets[0];
        if let Some(y) = pi_delete(x, p, k) {
            check("C13.model_delete_rows.record_follows", row_attrs_carried(&before, x, &ws.rows, y));
        }
        let want = match l0 { Some((r, c)) => pi_delete(r, p, k).map(|r2| (r2, c)), None => None };
        check("C13.model_delete_rows.link_follows", link_key(&ws.links, "L0") == want);
        check("C13.model_delete_rows.link_count", ws.links.len() == if want.is_some() { 1 } else { 0 });
    }
    reach("C13.model_delete_rows");
}

// ------------------------------------------------------------------------------------- C14 insert;delete

pub fn h_c14_model_columns_insert_delete() {
    let mut model = model_cols_links(2, 1);
    let p = any_col_index();
    let k = any_i32_in(1, LAST_COLUMN);
    let x = any_col_index();
    let before = model.workbook.worksheets[0].cols.clone();
    let l0 = link_key(&model.workbook.worksheets[0].links, "L0");
    if model.insert_columns(0, p, k).is_ok() && model.delete_columns(0, p, k).is_ok() {
        let ws = &model.workbook.worksheets[0];
        check("C14.model_columns.descriptor_identity", col_attrs_carried(&before, x, &ws.cols, x));
        check("C14.model_columns.link_identity", link_key(&ws.links, "L0") == l0);
        check("C14.model_columns.cols_sorted_disjoint", cols_sorted_disjoint(&ws.cols));
    }
    reach("C14.model_columns");
}

pub fn h_c14_model_rows_insert_delete() {
    let mut model = model_rows_links(2, 1);
    let p = any_row_index();
    let k = any_i32_in(1, LAST_ROW);
    let x = any_row_index();
    let before = model.workbook.worksheets[0].rows.clone();
    let l0 = link_key(&model.workbook.worksheets[0].links, "L0");
    if model.insert_rows(0, p, k).is_ok() && model.delete_rows(0, p, k).is_ok() {
        let ws = &model.workbook.worksheets[0];
        check("C14.model_rows.record_identity", row_attrs_carried(&before, x, &ws.rows, x));
        check("C14.model_rows.link_identity", link_key(&ws.links, "L0") == l0);
    }
    reach("C14.model_rows");
}

// ------------------------------------------------------------------------------------- C15 move

fn move_rows_block(nmax: i32, dmax: i32) {
    let mut model = model_rows_links(2, 1);
    let m = any_row_index();
    let n = any_i32_in(1, nmax);
    let d = any_i32_in(-dmax, dmax);
    assume(d != 0);
    let x = any_row_index();
    let before = model.workbook.worksheets[0].rows.clone();
    let l0 = link_key(&model.workbook.worksheets[0].links, "L0");
    if model.move_rows_action(0, m, n, d).is_ok() {
        let ws = &model.workbook.worksheets[0];
        check("C15.model_move_rows.record_follows", row_attrs_carried(&before, x, &ws.rows, sigma_block(x, m, n, d)));
        check("C15.model_move_rows.rows_unique", rows_unique(&ws.rows));
        let want = match l0 { Some((r, c)) => Some((sigma_block(r, m, n, d), c)), None => None };
        check("C15.model_move_rows.link_follows", link_key(&ws.links, "L0") == want);
        check("C15.model_move_rows.link_count", ws.links.len() == if l0.is_some() { 1 } else { 0 });
    }
    reach("C15.model_move_rows");
}
pub fn h_c15_model_move_rows() { move_rows_block(2, 2) }
pub fn ht_c15_model_move_rows3() { move_rows_block(3, 3) }
