//! Sheet furniture under structural edits, at `Model` level (the real `Model::insert_*/delete_*/move_*`
//! on cell-free sheets): column descriptors, row records and hyperlinks follow the edit map of the
//! property (C12, C13, C14, C15, C33) and stay well-formed (C27).
use super::rt::*;
use super::st::*;
use crate::constants::{LAST_COLUMN, LAST_ROW};
use crate::model::Model;
use crate::types::*;

fn model_cols_links(ncols: usize, nlinks: usize) -> Model<'static> {
    let mut ws = sheet_with(any_cols_fixed_w(ncols), vec![]);
    ws.links = any_links(nlinks);
    model_from_workbook(workbook_with(vec![ws], 0))
}
fn model_rows_links(nrows: usize, nlinks: usize) -> Model<'static> {
    let mut ws = sheet_with(vec![], any_rows_fixed_h(nrows));
    ws.links = any_links(nlinks);
    model_from_workbook(workbook_with(vec![ws], 0))
}

// ------------------------------------------------------------------------------------- C12 insert

pub fn h_c12_model_insert_columns() {
    let mut model = model_cols_links(2, 1);
    let p = any_col_index();
    let k = any_i32_in(1, LAST_COLUMN);
    let x = any_col_index();
    let before = model.workbook.worksheets[0].cols.clone();
    let l0 = link_key(&model.workbook.worksheets[0].links, "L0");
    if model.insert_columns(0, p, k).is_ok() {
        let ws = &model.workbook.worksheets[0];
        check("C12.model_insert_columns.descriptor_follows", col_attrs_carried(&before, x, &ws.cols, pi_insert(x, p, k)));
        let want = match l0 { Some((r, c)) => Some((r, pi_insert(c, p, k))), None => None };
        check("C12.model_insert_columns.link_follows", link_key(&ws.links, "L0") == want);
        check("C12.model_insert_columns.link_count", ws.links.len() == if l0.is_some() { 1 } else { 0 });
    }
    reach("C12.model_insert_columns");
}

pub fn h_c12_model_insert_rows() {
    let mut model = model_rows_links(2, 1);
    let p = any_row_index();
    let k = any_i32_in(1, LAST_ROW);
    let x = any_row_index();
    let before = model.workbook.worksheets[0].rows.clone();
    let l0 = link_key(&model.workbook.worksheets[0].links, "L0");
    if model.insert_rows(0, p, k).is_ok() {
        let ws = &model.workbook.worksheets[0];
        check("C12.model_insert_rows.record_follows", row_attrs_carried(&before, x, &ws.rows, pi_insert(x, p, k)));
        let want = match l0 { Some((r, c)) => Some((pi_insert(r, p, k), c)), None => None };
        check("C12.model_insert_rows.link_follows", link_key(&ws.links, "L0") == want);
        check("C12.model_insert_rows.link_count", ws.links.len() == if l0.is_some() { 1 } else { 0 });
    }
    reach("C12.model_insert_rows");
}

// ------------------------------------------------------------------------------------- C13 delete

pub fn h_c13_model_delete_columns() {
    let mut model = model_cols_links(2, 1);
    let p = any_col_index();
    let k = any_i32_in(1, LAST_COLUMN);
    let x = any_col_index();
    let before = model.workbook.worksheets[0].cols.clone();
    let l0 = link_key(&model.workbook.worksheets[0].links, "L0");
    if model.delete_columns(0, p, k).is_ok() {
        let ws = &model.workbook.worksheets[0];
        if let Some(y) = pi_delete(x, p, k) {
            check("C13.model_delete_columns.descriptor_follows", col_attrs_carried(&before, x, &ws.cols, y));
        }
        let want = match l0 { Some((r, c)) => pi_delete(c, p, k).map(|c2| (r, c2)), None => None };
        check("C13.model_delete_columns.link_follows", link_key(&ws.links, "L0") == want);
        check("C13.model_delete_columns.link_count", ws.links.len() == if want.is_some() { 1 } else { 0 });
    }
    reach("C13.model_delete_columns");
}

pub fn h_c13_model_delete_rows() {
    let mut model = model_rows_links(2, 1);
    let p = any_row_index();
    let k = any_i32_in(1, LAST_ROW);
    let x = any_row_index();
    let before = model.workbook.worksheets[0].rows.clone();
    let l0 = link_key(&model.workbook.worksheets[0].links, "L0");
    if model.delete_rows(0, p, k).is_ok() {
        let ws = &model.workbook.worksheets[0];
        if let Some(y) = pi_delete(x, p, k) {
            check("C13.model_delete_rows.record_follows", row_attrs_carried(&before, x, &ws.rows, y));
        }
        let want = match l0 { Some((r, c)) => pi_delete(r, p, k).map(|r2| (r2, c)), None => None };
        check("C13.model_delete_rows.link_follows", link_key(&ws.links, "L0") == want);
        check("C13.model_delete_rows.link_count", ws.links.len() == if want.is_some() { 1 } else { 0 });
    }
    reach("C13.model_delete_rows");
}

// ------------------------------------------------------------------------------------- C14 insert;delete

pub fn h_c14_model_columns_insert_delete() {
    let mut model = model_cols_links(2, 1);
    let p = any_col_index();
    let k = any_i32_in(1, LAST_COLUMN);
    let x = any_col_index();
    let before = model.workbook.worksheets[0].cols.clone();
    let l0 = link_key(&model.workbook.worksheets[0].links, "L0");
    if model.insert_columns(0, p, k).is_ok() && model.delete_columns(0, p, k).is_ok() {
        let ws = &model.workbook.worksheets[0];
        check("C14.model_columns.descriptor_identity", col_attrs_carried(&before, x, &ws.cols, x));
        check("C14.model_columns.link_identity", link_key(&ws.links, "L0") == l0);
        check("C14.model_columns.cols_sorted_disjoint", cols_sorted_disjoint(&ws.cols));
    }
    reach("C14.model_columns");
}

pub fn h_c14_model_rows_insert_delete() {
    let mut model = model_rows_links(2, 1);
    let p = any_row_index();
    let k = any_i32_in(1, LAST_ROW);
    let x = any_row_index();
    let before = model.workbook.worksheets[0].rows.clone();
    let l0 = link_key(&model.workbook.worksheets[0].links, "L0");
    if model.insert_rows(0, p, k).is_ok() && model.delete_rows(0, p, k).is_ok() {
        let ws = &model.workbook.worksheets[0];
        check("C14.model_rows.record_identity", row_attrs_carried(&before, x, &ws.rows, x));
        check("C14.model_rows.link_identity", link_key(&ws.links, "L0") == l0);
    }
    reach("C14.model_rows");
}

// ------------------------------------------------------------------------------------- C15 move

fn move_rows_block(nrows: usize, nmax: i32, dmax: i32) {
    let mut model = model_rows_links(nrows, 1);
    let m = any_row_index();
    let n = any_i32_in(1, nmax);
    let d = any_i32_in(-dmax, dmax);
    assume(d != 0);
    let x = any_row_index();
    let before = model.workbook.worksheets[0].rows.clone();
    let l0 = link_key(&model.workbook.worksheets[0].links, "L0");
    if model.move_rows_action(0, m, n, d).is_ok() {
        let ws = &model.workbook.worksheets[0];
        check("C15.model_move_rows.record_follows", row_attrs_carried(&before, x, &ws.rows, sigma_block(x, m, n, d)));
        check("C15.model_move_rows.rows_unique", rows_unique(&ws.rows));
        let want = match l0 { Some((r, c)) => Some((sigma_block(r, m, n, d), c)), None => None };
        check("C15.model_move_rows.link_follows", link_key(&ws.links, "L0") == want);
        check("C15.model_move_rows.link_count", ws.links.len() == if l0.is_some() { 1 } else { 0 });
    }
    reach("C15.model_move_rows");
}
pub fn h_c15_model_move_rows() { move_rows_block(1, 3, 2) }
pub fn ht_c15_model_move_rows3() { move_rows_block(1, 3, 3) }

/// observable attributes of a column: (width when shown, hidden, style)
fn col_obs(ws: &Worksheet, c: i32) -> (Result<f64, String>, Result<bool, String>, Result<Option<i32>, String>) {
    (ws.get_actual_column_width(c), ws.is_column_hidden(c), ws.get_column_style(c))
}

fn move_columns_block(ncols: usize, nmax: i32, dmax: i32) {
    let mut model = model_cols_links(ncols, 1);
    let m = any_col_index();
    let n = any_i32_in(1, nmax);
    let d = any_i32_in(-dmax, dmax);
    assume(d != 0);
    let x = any_col_index();
    let before = col_obs(&model.workbook.worksheets[0], x);
    let l0 = link_key(&model.workbook.worksheets[0].links, "L0");
    if model.move_columns_action(0, m, n, d).is_ok() {
        let ws = &model.workbook.worksheets[0];
        check("C15.model_move_columns.attrs_follow", col_obs(ws, sigma_block(x, m, n, d)) == before);
        check("C15.model_move_columns.cols_sorted_disjoint", cols_sorted_disjoint(&ws.cols));
        let want = match l0 { Some((r, c)) => Some((r, sigma_block(c, m, n, d))), None => None };
        check("C15.model_move_columns.link_follows", link_key(&ws.links, "L0") == want);
        check("C15.model_move_columns.link_count", ws.links.len() == if l0.is_some() { 1 } else { 0 });
    }
    reach("C15.model_move_columns");
}
pub fn h_c15_model_move_columns() { move_columns_block(1, 1, 2) }
pub fn ht_c15_model_move_columns3() { move_columns_block(1, 2, 3) }

// ------------------------------------------------------------------------------------- C33 links (two links, no other furniture)

fn model_links2() -> Model<'static> {
    let mut ws = sheet_with(vec![], vec![]);
    ws.links = any_links(2);
    model_from_workbook(workbook_with(vec![ws], 0))
}
fn links_snapshot(m: &Model) -> (Option<(i32, i32)>, Option<(i32, i32)>, usize) {
    let l = &m.workbook.worksheets[0].links;
    (link_key(l, "L0"), link_key(l, "L1"), l.len())
}
fn map_key(k: Option<(i32, i32)>, f: &dyn Fn(i32, i32) -> Option<(i32, i32)>) -> Option<(i32, i32)> {
    match k { Some((r, c)) => f(r, c), None => None }
}
fn count2(a: Option<(i32, i32)>, b: Option<(i32, i32)>) -> usize { (a.is_some() as usize) + (b.is_some() as usize) }

pub fn h_c33_links_insert_rows() {
    let mut model = model_links2();
    let (p, k) = (any_row_index(), any_i32_in(1, LAST_ROW));
    let (a, b, _) = links_snapshot(&model);
    if model.insert_rows(0, p, k).is_ok() {
        let f = |r: i32, c: i32| Some((pi_insert(r, p, k), c));
        let (wa, wb) = (map_key(a, &f), map_key(b, &f));
        check("C33.links.insert_rows", links_snapshot(&model) == (wa, wb, count2(wa, wb)));
    }
    reach("C33.links.insert_rows");
}
pub fn h_c33_links_insert_columns() {
    let mut model = model_links2();
    let (p, k) = (any_col_index(), any_i32_in(1, LAST_COLUMN));
    let (a, b, _) = links_snapshot(&model);
    if model.insert_columns(0, p, k).is_ok() {
        let f = |r: i32, c: i32| Some((r, pi_insert(c, p, k)));
        let (wa, wb) = (map_key(a, &f), map_key(b, &f));
        check("C33.links.insert_columns", links_snapshot(&model) == (wa, wb, count2(wa, wb)));
    }
    reach("C33.links.insert_columns");
}
pub fn h_c33_links_delete_rows() {
    let mut model = model_links2();
    let (p, k) = (any_row_index(), any_i32_in(1, LAST_ROW));
    let (a, b, _) = links_snapshot(&model);
    if model.delete_rows(0, p, k).is_ok() {
        let f = |r: i32, c: i32| pi_delete(r, p, k).map(|r2| (r2, c));
        let (wa, wb) = (map_key(a, &f), map_key(b, &f));
        check("C33.links.delete_rows", links_snapshot(&model) == (wa, wb, count2(wa, wb)));
    }
    reach("C33.links.delete_rows");
}
pub fn h_c33_links_delete_columns() {
    let mut model = model_links2();
    let (p, k) = (any_col_index(), any_i32_in(1, LAST_COLUMN));
    let (a, b, _) = links_snapshot(&model);
    if model.delete_columns(0, p, k).is_ok() {
        let f = |r: i32, c: i32| pi_delete(c, p, k).map(|c2| (r, c2));
        let (wa, wb) = (map_key(a, &f), map_key(b, &f));
        check("C33.links.delete_columns", links_snapshot(&model) == (wa, wb, count2(wa, wb)));
    }
    reach("C33.links.delete_columns");
}
pub fn h_c33_links_move_rows() {
    let mut model = model_links2();
    let (m, n, d) = (any_row_index(), any_i32_in(1, 2), any_i32_in(-2, 2));
    assume(d != 0);
    let (a, b, _) = links_snapshot(&model);
    if model.move_rows_action(0, m, n, d).is_ok() {
        let f = |r: i32, c: i32| Some((sigma_block(r, m, n, d), c));
        let (wa, wb) = (map_key(a, &f), map_key(b, &f));
        check("C33.links.move_rows", links_snapshot(&model) == (wa, wb, count2(wa, wb)));
    }
    reach("C33.links.move_rows");
}
pub fn h_c33_links_move_columns() {
    let mut model = model_links2();
    let (m, n, d) = (any_col_index(), any_i32_in(1, 2), any_i32_in(-2, 2));
    assume(d != 0);
    let (a, b, _) = links_snapshot(&model);
    if model.move_columns_action(0, m, n, d).is_ok() {
        let f = |r: i32, c: i32| Some((r, sigma_block(c, m, n, d)));
        let (wa, wb) = (map_key(a, &f), map_key(b, &f));
        check("C33.links.move_columns", links_snapshot(&model) == (wa, wb, count2(wa, wb)));
    }
    reach("C33.links.move_columns");
}

// ------------------------------------------------------------------------------------- C27 well-formedness (no probes)

pub fn h_c27_model_column_edits() {
    let mut ws = sheet_with(any_cols_fixed_w(2), vec![]);
    let mut model = model_from_workbook(workbook_with(vec![ws], 0));
    let (p, k) = (any_col_index(), any_i32_in(1, LAST_COLUMN));
    let op = any_u8();
    assume(op < 3);
    let r = if op == 0 { model.insert_columns(0, p, k) }
            else if op == 1 { model.delete_columns(0, p, k) }
            else { let d = any_i32_in(-2, 2); assume(d != 0); model.move_columns_action(0, p, any_i32_in(1, 2), d) };
    if r.is_ok() {
        check("C27.model_column_edits.cols_sorted_disjoint", cols_sorted_disjoint(&model.workbook.worksheets[0].cols));
    }
    reach("C27.model_column_edits");
}

pub fn h_c27_model_row_edits() {
    let ws = sheet_with(vec![], any_rows_fixed_h(2));
    let mut model = model_from_workbook(workbook_with(vec![ws], 0));
    let (p, k) = (any_row_index(), any_i32_in(1, LAST_ROW));
    let op = any_u8();
    assume(op < 3);
    let r = if op == 0 { model.insert_rows(0, p, k) }
            else if op == 1 { model.delete_rows(0, p, k) }
            else { let d = any_i32_in(-2, 2); assume(d != 0); model.move_rows_action(0, p, any_i32_in(1, 2), d) };
    if r.is_ok() {
        check("C27.model_row_edits.rows_unique", rows_unique(&model.workbook.worksheets[0].rows));
    }
    reach("C27.model_row_edits");
}
