//@parent formatter::format
//! C19 - typed numbers are recognised exactly: the recogniser `parse_number` on every ASCII string up to a length,
//! against a reference scanner written from the property (sign, digits with group separators, decimal part, exponent).
//! The numeric value of the digit string is Rust's `str::parse::<f64>` on both sides (uninterpreted in the encoding).
use super::parse_number;
use crate::verif::rt::*;

struct Scan { shape_ok: bool, strict: bool, neg: bool, cleaned: String, groups: usize, scientific: bool }

/// reference scanner: [+-]? (digit | group)* [dec digit*]? [(e|E) (+|-|digit) digit*]?  - the whole text
/// `shape_ok`: the text has that shape, does not start its digits with a group separator and every group separator is
///             followed by a multiple of three integer digits (what the engine accepts as "correctly placed");
/// `strict`  : additionally an ordinary well-formed number: at least one integer digit, groups of exactly three
///             after a first group of 1-3 (or no separators at all), exponent with at least one digit
fn scan(t: &[u8], dec: u8, grp: u8) -> Scan {
    let n = t.len();
    let mut s = Scan { shape_ok: false, strict: false, neg: false, cleaned: String::new(), groups: 0, scientific: false };
    if n == 0 { return s; }
    let mut i = 0;
    if t[0] == b'-' { s.neg = true; i = 1; } else if t[0] == b'+' { i = 1; }
    if i >= n { return s; }
    if t[i] == grp { return s; }
    let mut int_digits = 0usize;
    let mut since_group = 0usize;      // digits since the last separator
    let mut first_group = 0usize;      // digits before the first separator
    let mut groups_exact = true;       // every closed group after the first has exactly three digits
    let mut groups_mod3 = true;        // every separator is followed by a multiple of three digits (checked at the end)
    let mut seps_at: Vec<usize> = Vec::new();
    while i < n {
        let c = t[i];
        if c.is_ascii_digit() { s.cleaned.push(c as char); int_digits += 1; since_group += 1; }
        else if c == grp {
            if s.groups == 0 { first_group = since_group; } else if since_group != 3 { groups_exact = false; }
            s.groups += 1; since_group = 0; seps_at.push(int_digits);
        } else { break; }
        i += 1;
    }
    let mut k = 0;
    while k < seps_at.len() { if (int_digits - seps_at[k]) % 3 != 0 { groups_mod3 = false; } k += 1; }
    if s.groups > 0 && since_group != 3 { groups_exact = false; }
    let first_ok = s.groups == 0 || (1 <= first_group && first_group <= 3);
    let mut frac_digits = 0usize;
    if i < n && t[i] == dec {
        s.cleaned.push('.');
        i += 1;
        while i < n && t[i].is_ascii_digit() { s.cleaned.push(t[i] as char); frac_digits += 1; i += 1; }
    }
    let mut exp_digits = 0usize;
    if i + 1 < n && (t[i] == b'e' || t[i] == b'E') {
        s.scientific = true;
        let x = t[i + 1];
        if x == b'-' || x == b'+' || x.is_ascii_digit() {
            s.cleaned.push('e'); s.cleaned.push(x as char);
            if x.is_ascii_digit() { exp_digits += 1; }
            i += 2;
            while i < n && t[i].is_ascii_digit() { s.cleaned.push(t[i] as char); exp_digits += 1; i += 1; }
        }
    }
    if i != n { return s; }
    s.shape_ok = groups_mod3;
    s.strict = groups_mod3 && groups_exact && first_ok && int_digits >= 1 && (!s.scientific || exp_digits >= 1);
    let _ = frac_digits;
    s
}

fn number_case(max: usize, dec: u8, grp: u8) {
    let text = any_ascii_string(max);
    let sc = scan(text.as_bytes(), dec, grp);
    let want_value = sc.cleaned.parse::<f64>();
    match parse_number(&text, dec as char, grp as char) {
        Ok((v, opts)) => {
            check("C19.number.accepted_has_number_shape", sc.shape_ok);
            let sign = if sc.neg { -1.0 } else { 1.0 };
            check("C19.number.value_is_signed_digits", match want_value { Ok(w) => v == sign * w || (v.is_nan() && w.is_nan()), Err(_) => false });
            check("C19.number.grouped_flag", opts.has_commas == (sc.groups > 0));
            check("C19.number.scientific_flag", opts.is_scientific == sc.scientific);
        }
        Err(_) => {
            check("C19.number.wellformed_is_accepted", !(sc.strict && want_value.is_ok()));
        }
    }
}
pub fn h_c19_number_en() { number_case(5, b'.', b','); reach("C19.number_en"); }
pub fn h_c19_number_de() { number_case(4, b',', b'.'); reach("C19.number_de"); }
pub fn ht_c19_number_en7() { number_case(7, b'.', b','); reach("C19.number_en7"); }

// ---------------------------------------------------------------------------------------------
// percent / currency / plain: `parse_formatted_number` against the number kernel above applied to the stripped text

use super::parse_formatted_number;
use crate::verif::st::locale_with;

/// value and options of the number kernel on `t` (trimmed), None when it rejects
fn kernel(t: &str) -> Option<(f64, bool, bool)> {
    match parse_number(t.trim(), '.', ',') { Ok((v, o)) => Some((v, o.is_scientific, o.has_commas)), Err(_) => None }
}

/// shape 0: body, 1: body%, 2: $body, 3: -$body, 4: body$ ; body = any ASCII text of length <= max without white space
fn formatted_case(max: usize) {
    let body = any_ascii_string(max);
    let b = body.as_bytes();
    let mut i = 0;
    // stated bound: printable characters only - no white space or control characters (the recogniser trims around
    // every piece, and `trim` also removes \x0b) - and no date separator '/'
    while i < b.len() { assume((b[i] > 32) & (b[i] < 127) & (b[i] != b'/')); i += 1; }
    // shapes 5-7: the same with white space around them - typed text is trimmed before it is read
    let shape = any_u8();
    assume(shape < 8);
    let text = if shape == 0 { body.clone() } else if shape == 1 { format!("{body}%") } else if shape == 2 { format!("${body}") }
               else if shape == 3 { format!("-${body}") } else if shape == 4 { format!("{body}$") }
               else if shape == 5 { format!("{body}% ") } else if shape == 6 { format!(" {body}") } else { format!(" ${body} ") };
    let text_trimmed = text.trim().to_string();
    let locale = locale_with(".", ",");
    let got = parse_formatted_number(&text, &["$"], &locale);
    // what the property says each shape means, decided on the text itself (a body may bring its own % or $)
    let (inner, negate, percent, currency): (Option<(f64, bool, bool)>, bool, bool, bool) =
        if let Some(p) = text_trimmed.strip_suffix('%') { (kernel(p), false, true, false) }
        else if let Some(p) = text_trimmed.strip_prefix("-$") { (kernel(p), true, false, true) }
        else if let Some(p) = text_trimmed.strip_prefix('$') { (kernel(p), false, false, true) }
        else if let Some(p) = text_trimmed.strip_suffix('$') { (kernel(p), false, false, true) }
        else { (kernel(&text_trimmed), false, false, false) };
    match (got, inner) {
        (Ok((v, fmt)), Some((w, scientific, grouped))) => {
            let w2 = if percent { w / 100.0 } else { w };
            let want = if negate { -w2 } else { w2 };
            check("C19.formatted.value_with_sign", v == want || (v.is_nan() && want.is_nan()));
            let f = fmt.unwrap_or_default();
            if scientific { check("C19.formatted.scientific_format", f.contains("E+")); }
            else if percent { check("C19.formatted.percent_format", f.contains('%')); }
            else if currency { check("C19.formatted.currency_format", f.contains('$')); }
            else { check("C19.formatted.grouped_format", f.contains(',') == grouped); }
        }
        (Ok(_), None) => {
            // accepted although the number kernel rejects the stripped text: only the date branch may do that
            check("C19.formatted.accepts_only_numbers", text.contains('-') || text.contains('.'));
        }
        (Err(_), Some(_)) => { check("C19.formatted.number_is_accepted", false); }
        (Err(_), None) => {}
    }
}
pub fn h_c19_formatted_en() { formatted_case(3); reach("C19.formatted_en"); }
pub fn ht_c19_formatted_en4() { formatted_case(4); reach("C19.formatted_en4"); }
