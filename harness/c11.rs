//! C11 - text inputs never crash: panic-freedom of the text kernels on every ASCII string up to a bound.
//! (The formula lexer harnesses live in lx.rs because they need private access.)  A reachable panic is
//! reported under `<harness>.nopanic` / `.nooverflow`.
use super::rt::*;
use crate::expressions::utils;
use crate::formatter;

/// number-format codes: the format lexer + parser accept any text (errors become an error part)
fn format_code_case(max: usize) {
    let code = any_ascii_string(max);
    let mut p = formatter::parser::Parser::new(&code);
    p.parse();
    check("C11.format_code.returns", p.parts.len() <= max + 1);
    let _ = formatter::lexer::is_likely_date_number_format(&code);
}
pub fn h_c11_format_code() { format_code_case(3); reach("C11.format_code"); }
pub fn ht_c11_format_code4() { format_code_case(4); reach("C11.format_code4"); }

/// reference / name helpers used on typed text
fn utils_case(max: usize) {
    let t = any_ascii_string(max);
    let _ = utils::column_to_number(&t);
    let _ = utils::parse_reference_a1(&t);
    let _ = utils::parse_reference_r1c1(&t);
    let _ = utils::is_valid_identifier(&t);
    let _ = utils::is_valid_column(&t);
    let q = utils::quote_name(&t);
    check("C11.utils.quote_keeps_text", q.len() >= t.len());
}
pub fn h_c11_utils() { utils_case(4); reach("C11.utils"); }
