//@parent model
//! C08 (no cell stores a non-finite number) and C31 (spills are exact or blocked) at the single function through
//! which every formula result reaches a cell: `Model::set_cells_with_result`, with a symbolic result (scalar or
//! array of up to 2x2), a symbolic kind of formula cell and symbolic neighbours.
use super::Model;
use crate::calc_result::CalcResult;
use crate::constants::{LAST_COLUMN, LAST_ROW};
use crate::expressions::parser::ArrayNode;
use crate::expressions::token::Error;
use crate::expressions::types::CellReferenceIndex;
use crate::types::*;
use crate::verif::rt::*;
use crate::verif::st::*;
use std::collections::HashMap;

const R0: i32 = 5;
const C0: i32 = 3;

fn put(ws: &mut Worksheet, r: i32, c: i32, cell: Cell) {
    if !ws.sheet_data.contains_key(&r) { ws.sheet_data.insert(r, HashMap::new()); }
    if let Some(row) = ws.sheet_data.get_mut(&r) { row.insert(c, cell); }
}
fn cell_at(m: &Model, r: i32, c: i32) -> Option<Cell> {
    match m.workbook.worksheets[0].sheet_data.get(&r) { Some(row) => row.get(&c).cloned(), None => None }
}

/// is the number stored in this cell (if it stores one) finite?
fn stored_number_finite(c: &Option<Cell>) -> bool {
    match c {
        Some(Cell::NumberCell { v, .. }) => v.is_finite(),
        Some(Cell::CellFormula { v: FormulaValue::Number(n), .. }) => n.is_finite(),
        Some(Cell::ArrayFormula { v: FormulaValue::Number(n), .. }) => n.is_finite(),
        Some(Cell::SpillCell { v: SpillValue::Number(n), .. }) => n.is_finite(),
        _ => true,
    }
}

/// an array result of `rows` x `cols` whose elements are arbitrary doubles (NaN and infinities included)
fn any_number_array(rows: usize, cols: usize) -> Vec<Vec<ArrayNode>> {
    let mut a: Vec<Vec<ArrayNode>> = Vec::new();
    let mut i = 0;
    while i < rows {
        let mut line: Vec<ArrayNode> = Vec::new();
        let mut j = 0;
        while j < cols { line.push(ArrayNode::Number(any_f64())); j += 1; }
        a.push(line);
        i += 1;
    }
    a
}

/// kind 0: plain formula cell; 1: CSE anchor over w x h with its spill cells in place; 2: dynamic anchor
fn formula_cell(ws: &mut Worksheet, kind: u8, w: i32, h: i32) -> Cell {
    let s = any_i32();
    let cell = if kind == 0 { Cell::CellFormula { f: 0, s, v: FormulaValue::Unevaluated } }
               else if kind == 1 { Cell::ArrayFormula { f: 0, s, r: (w, h), kind: ArrayKind::Cse, v: FormulaValue::Unevaluated } }
               else { Cell::ArrayFormula { f: 0, s, r: (1, 1), kind: ArrayKind::Dynamic, v: FormulaValue::Unevaluated } };
    put(ws, R0, C0, cell.clone());
    if kind == 1 {
        let mut r = 0;
        while r < h {
            let mut c = 0;
            while c < w {
                if r != 0 || c != 0 { put(ws, R0 + r, C0 + c, Cell::SpillCell { s: 0, a: (R0, C0), v: SpillValue::Number(0.0) }); }
                c += 1;
            }
            r += 1;
        }
    }
    cell
}

pub fn h_c08_store_result() {
    let mut ws = empty_sheet("Sheet1", 1);
    let kind = any_u8();
    assume(kind < 3);
    let (w, h) = (any_i32_in(1, 2), any_i32_in(1, 2));
    let cell = formula_cell(&mut ws, kind, w, h);
    let mut model = model_from_workbook(workbook_with(vec![ws], 0));
    let scalar = any_bool();
    // a plain (non-array) formula cell only ever receives scalars or 1x1 arrays: static analysis wraps larger
    // array results in implicit intersection (the code debug_asserts this), so larger arrays are not a reachable pre-state
    let (rows, cols) = if kind == 0 { (1, 1) } else { (any_usize_to(1) + 1, any_usize_to(1) + 1) };
    let result = if scalar { CalcResult::Number(any_f64()) } else { CalcResult::Array(any_number_array(rows, cols)) };
    let r = model.set_cells_with_result(CellReferenceIndex { sheet: 0, row: R0, column: C0 }, &cell, &result);
    check("C08.store.returns_ok", r.is_ok());
    let ok = stored_number_finite(&cell_at(&model, R0, C0)) & stored_number_finite(&cell_at(&model, R0, C0 + 1))
           & stored_number_finite(&cell_at(&model, R0 + 1, C0)) & stored_number_finite(&cell_at(&model, R0 + 1, C0 + 1));
    check("C08.store.no_non_finite_number", ok);
    reach("C08.store");
}

// ------------------------------------------------------------------------------------- C31

/// neighbour of the anchor: 0 absent, 1 empty cell, 2 user content, 3 own (stale) spill, 4 another formula's spill
fn any_neighbour(ws: &mut Worksheet, r: i32, c: i32) -> u8 {
    let k = any_u8();
    assume(k < 5);
    // styles, stale values and the foreign anchor are symbolic
    if k == 1 { put(ws, r, c, Cell::EmptyCell { s: any_i32() }); }
    if k == 2 { put(ws, r, c, Cell::NumberCell { v: 42.0, s: any_i32() }); }
    if k == 3 { put(ws, r, c, Cell::SpillCell { s: any_i32(), a: (R0, C0), v: SpillValue::Number(99.0) }); }
    if k == 4 {
        let (ar, ac) = (any_row_index(), any_col_index());
        assume((ar != R0) | (ac != C0));
        put(ws, r, c, Cell::SpillCell { s: any_i32(), a: (ar, ac), v: SpillValue::Number(77.0) });
    }
    k
}

pub fn h_c31_spill_write() {
    let mut ws = empty_sheet("Sheet1", 1);
    let cell = formula_cell(&mut ws, 2, 1, 1);
    let n = [any_neighbour(&mut ws, R0, C0 + 1), any_neighbour(&mut ws, R0 + 1, C0), any_neighbour(&mut ws, R0 + 1, C0 + 1)];
    let mut model = model_from_workbook(workbook_with(vec![ws], 0));
    let (rows, cols) = (any_usize_to(1) + 1, any_usize_to(1) + 1);
    // arbitrary finite element values: a transposed or shifted spill would have to equal the right one for all of them
    let vals = [[any_f64_finite(), any_f64_finite()], [any_f64_finite(), any_f64_finite()]];
    let mut arr: Vec<Vec<ArrayNode>> = Vec::new();
    let mut i = 0;
    while i < rows { let mut line = Vec::new(); let mut j = 0; while j < cols { line.push(ArrayNode::Number(vals[i][j])); j += 1; } arr.push(line); i += 1; }
    let before = [cell_at(&model, R0, C0 + 1), cell_at(&model, R0 + 1, C0), cell_at(&model, R0 + 1, C0 + 1)];
    let r = model.set_cells_with_result(CellReferenceIndex { sheet: 0, row: R0, column: C0 }, &cell, &CalcResult::Array(arr));
    check("C31.write.returns_ok", r.is_ok());
    let in_block = [cols == 2, rows == 2, rows == 2 && cols == 2];
    let blocked = (in_block[0] && (n[0] == 2 || n[0] == 4)) || (in_block[1] && (n[1] == 2 || n[1] == 4)) || (in_block[2] && (n[2] == 2 || n[2] == 4));
    let after = [cell_at(&model, R0, C0 + 1), cell_at(&model, R0 + 1, C0), cell_at(&model, R0 + 1, C0 + 1)];
    let anchor = cell_at(&model, R0, C0);
    if blocked {
        let shows_spill = match &anchor { Some(Cell::ArrayFormula { kind: ArrayKind::Dynamic, r: (1, 1), v: FormulaValue::Error { ei: Error::SPILL, .. }, .. }) => true, _ => false };
        check("C31.write.blocked_shows_spill_error", shows_spill);
        check("C31.write.blocked_fills_nothing", after == before);
    } else {
        let anchor_ok = match &anchor { Some(Cell::ArrayFormula { kind: ArrayKind::Dynamic, r, v: FormulaValue::Number(x), .. }) => *r == (cols as i32, rows as i32) && *x == vals[0][0], _ => false };
        check("C31.write.anchor_holds_first_element_and_size", anchor_ok);
        let want = [vals[0][1], vals[1][0], vals[1][1]];
        let mut ok = true;
        let mut k = 0;
        while k < 3 {
            if in_block[k] {
                ok &= match &after[k] { Some(Cell::SpillCell { a, v: SpillValue::Number(x), .. }) => *a == (R0, C0) && *x == want[k], _ => false };
            } else {
                // outside the result block nothing is written
                ok &= after[k] == before[k];
            }
            k += 1;
        }
        check("C31.write.block_exact_and_nothing_outside", ok);
    }
    // user content is never overwritten
    let mut kept = true;
    let mut k = 0;
    while k < 3 { if n[k] == 2 { kept &= after[k] == before[k]; } k += 1; }
    check("C31.write.user_content_kept", kept);
    reach("C31.write");
}

/// a result that would leave the grid shows #SPILL! and writes nothing
pub fn h_c31_spill_off_grid() {
    let mut ws = empty_sheet("Sheet1", 1);
    let at_last_row = any_bool();
    let (r0, c0) = if at_last_row { (LAST_ROW, 3) } else { (5, LAST_COLUMN) };
    let cell = Cell::ArrayFormula { f: 0, s: 0, r: (1, 1), kind: ArrayKind::Dynamic, v: FormulaValue::Unevaluated };
    put(&mut ws, r0, c0, cell.clone());
    let mut model = model_from_workbook(workbook_with(vec![ws], 0));
    let arr = if at_last_row { vec![vec![ArrayNode::Number(1.0)], vec![ArrayNode::Number(2.0)]] } else { vec![vec![ArrayNode::Number(1.0), ArrayNode::Number(2.0)]] };
    let r = model.set_cells_with_result(CellReferenceIndex { sheet: 0, row: r0, column: c0 }, &cell, &CalcResult::Array(arr));
    let anchor = match model.workbook.worksheets[0].sheet_data.get(&r0) { Some(row) => row.get(&c0).cloned(), None => None };
    let shows_spill = match &anchor { Some(Cell::ArrayFormula { v: FormulaValue::Error { ei: Error::SPILL, .. }, .. }) => true, _ => false };
    check("C31.off_grid.shows_spill_error", r.is_ok() && shows_spill);
    let mut count = 0;
    for (_, row) in model.workbook.worksheets[0].sheet_data.iter() { count += row.len(); }
    check("C31.off_grid.fills_nothing", count == 1);
    reach("C31.off_grid");
}
