//! Harness runtime shim.  One harness source, two consumers:
//!  * `--cfg verif_mir`    : bodies are irrelevant, mirsym intercepts every `rt::*` call by name;
//!  * `--cfg verif_replay` : inputs come from a recorded vector, checks/observations are logged.
#![allow(dead_code)]

#[cfg(not(verif_replay))]
mod imp {
    use std::hint::black_box;
    macro_rules! any { ($($n:ident : $t:ty = $z:expr),*) => { $( #[inline(never)] pub fn $n() -> $t { black_box($z) } )* } }
    any!(vrt_any_bool: bool = false, vrt_any_u8: u8 = 0, vrt_any_ascii: u8 = 0, vrt_any_i32: i32 = 0, vrt_any_u32: u32 = 0,
         vrt_any_i64: i64 = 0, vrt_any_u64: u64 = 0, vrt_any_usize: usize = 0, vrt_any_f64: f64 = 0.0);
    #[inline(never)] pub fn vrt_assume(c: bool) { black_box(c); }
    #[inline(never)] pub fn vrt_check(id: &'static str, ok: bool) { black_box((id, ok)); }
    #[inline(never)] pub fn vrt_check_kf(id: &'static str, ok: bool, kf: &'static str, in_class: bool) { black_box((id, ok, kf, in_class)); }
    #[inline(never)] pub fn vrt_reach(id: &'static str) { black_box(id); }
    #[inline(never)] pub fn vrt_observe_i64(tag: &'static str, v: i64) { black_box((tag, v)); }
    #[inline(never)] pub fn vrt_observe_u64(tag: &'static str, v: u64) { black_box((tag, v)); }
    #[inline(never)] pub fn vrt_observe_bool(tag: &'static str, v: bool) { black_box((tag, v)); }
    #[inline(never)] pub fn vrt_observe_f64(tag: &'static str, v: f64) { black_box((tag, v)); }
    #[inline(never)] pub fn vrt_observe_str(tag: &'static str, v: &str) { black_box((tag, v)); }
}

#[cfg(verif_replay)]
mod imp {
    use std::cell::RefCell;
    pub struct AssumeFailed;
    pub struct InputExhausted;
    pub struct State { pub inputs: Vec<(String, i128)>, pub pos: usize, pub trace: Vec<String> }
    thread_local! { pub static ST: RefCell<State> = RefCell::new(State { inputs: vec![], pos: 0, trace: vec![] }); }
    fn next(kind: &str) -> i128 {
        let r = ST.with(|s| {
            let mut s = s.borrow_mut();
            if s.pos >= s.inputs.len() { return None; }
            let (k, v) = s.inputs[s.pos].clone();
            s.pos += 1;
            if k != kind { s.trace.push(format!("input-kind-mismatch want {} got {}", kind, k)); }
            Some(v)
        });
        match r { Some(v) => v, None => std::panic::panic_any(InputExhausted) }
    }
    fn log(l: String) { ST.with(|s| s.borrow_mut().trace.push(l)); }
    pub fn vrt_any_bool() -> bool { next("bool") != 0 }
    pub fn vrt_any_u8() -> u8 { next("u8") as u8 }
    pub fn vrt_any_ascii() -> u8 { next("u8") as u8 }
    pub fn vrt_any_i32() -> i32 { next("i32") as i32 }
    pub fn vrt_any_u32() -> u32 { next("u32") as u32 }
    pub fn vrt_any_i64() -> i64 { next("i64") as i64 }
    pub fn vrt_any_u64() -> u64 { next("u64") as u64 }
    pub fn vrt_any_usize() -> usize { next("usize") as usize }
    pub fn vrt_any_f64() -> f64 { f64::from_bits(next("f64") as u64) }
    pub fn vrt_assume(c: bool) { if !c { std::panic::panic_any(AssumeFailed) } }
    pub fn vrt_check(id: &'static str, ok: bool) { log(format!("chk {} {}", id, ok as u8)); }
    pub fn vrt_check_kf(id: &'static str, ok: bool, _kf: &'static str, _in_class: bool) { log(format!("chk {} {}", id, ok as u8)); }
    pub fn vrt_reach(id: &'static str) { log(format!("reach {}", id)); }
    pub fn vrt_observe_i64(tag: &'static str, v: i64) { log(format!("obs {} i64 {}", tag, v)); }
    pub fn vrt_observe_u64(tag: &'static str, v: u64) { log(format!("obs {} u64 {}", tag, v)); }
    pub fn vrt_observe_bool(tag: &'static str, v: bool) { log(format!("obs {} bool {}", tag, v as u8)); }
    pub fn vrt_observe_f64(tag: &'static str, v: f64) { log(format!("obs {} f64 {}", tag, v.to_bits())); }
    pub fn vrt_observe_str(tag: &'static str, v: &str) {
        let hex: String = v.bytes().map(|b| format!("{:02x}", b)).collect();
        log(format!("obs {} str {}", tag, hex));
    }

    /// run one recorded case; returns the trace lines and the end status
    pub fn run_case(f: fn(), inputs: Vec<(String, i128)>) -> (Vec<String>, String) {
        ST.with(|s| { let mut s = s.borrow_mut(); s.inputs = inputs; s.pos = 0; s.trace.clear(); });
        let r = std::panic::catch_unwind(f);
        let status = match r {
            Ok(()) => "ok".to_string(),
            Err(e) => {
                if e.is::<AssumeFailed>() { "assume-false".to_string() }
                else if e.is::<InputExhausted>() { "input-exhausted".to_string() }
                else if let Some(s) = e.downcast_ref::<String>() { format!("panic {}", s.replace('\n', " ")) }
                else if let Some(s) = e.downcast_ref::<&str>() { format!("panic {}", s.replace('\n', " ")) }
                else { "panic ?".to_string() }
            }
        };
        let trace = ST.with(|s| std::mem::take(&mut s.borrow_mut().trace));
        (trace, status)
    }
}

pub use imp::*;

#[inline(never)] pub fn any_bool() -> bool { vrt_any_bool() }
#[inline(never)] pub fn any_u8() -> u8 { vrt_any_u8() }
#[inline(never)] pub fn any_ascii() -> u8 { vrt_any_ascii() }
#[inline(never)] pub fn any_i32() -> i32 { vrt_any_i32() }
#[inline(never)] pub fn any_u32() -> u32 { vrt_any_u32() }
#[inline(never)] pub fn any_i64() -> i64 { vrt_any_i64() }
#[inline(never)] pub fn any_u64() -> u64 { vrt_any_u64() }
#[inline(never)] pub fn any_usize() -> usize { vrt_any_usize() }
#[inline(never)] pub fn any_f64() -> f64 { vrt_any_f64() }
#[inline(never)] pub fn assume(c: bool) { vrt_assume(c) }
#[inline(never)] pub fn check(id: &'static str, ok: bool) { vrt_check(id, ok) }
#[inline(never)] pub fn check_kf(id: &'static str, ok: bool, kf: &'static str, in_class: bool) { vrt_check_kf(id, ok, kf, in_class) }
#[inline(never)] pub fn reach(id: &'static str) { vrt_reach(id) }
#[inline(never)] pub fn observe_i64(tag: &'static str, v: i64) { vrt_observe_i64(tag, v) }
#[inline(never)] pub fn observe_u64(tag: &'static str, v: u64) { vrt_observe_u64(tag, v) }
#[inline(never)] pub fn observe_bool(tag: &'static str, v: bool) { vrt_observe_bool(tag, v) }
#[inline(never)] pub fn observe_f64(tag: &'static str, v: f64) { vrt_observe_f64(tag, v) }
#[inline(never)] pub fn observe_str(tag: &'static str, v: &str) { vrt_observe_str(tag, v) }


// ---------------------------------------------------------------------------------------------
// helpers shared by harnesses (ordinary Rust, executed symbolically like everything else)

/// i32 in lo..=hi
pub fn any_i32_in(lo: i32, hi: i32) -> i32 { let v = any_i32(); assume((lo <= v) & (v <= hi)); v }
pub fn any_usize_to(hi: usize) -> usize { let v = any_usize(); assume(v <= hi); v }
pub fn any_opt_i32() -> Option<i32> { if any_bool() { Some(any_i32()) } else { None } }

/// finite f64
pub fn any_f64_finite() -> f64 { let v = any_f64(); assume(v.is_finite()); v }

/// ASCII string of length 0..=max (every length is a separate path)
pub fn any_ascii_string(max: usize) -> String {
    let n = any_usize_to(max);
    let mut s = String::new();
    let mut i = 0;
    while i < n { s.push(any_ascii() as char); i += 1; }
    s
}
