//@parent expressions::parser::move_formula
//! C16 - cut & paste retargeting and copy & paste translation of references (the reference arithmetic only).
//! Cut: `to_string_moved` on `Node::ReferenceKind` / `Node::RangeKind` with symbolic coordinates, cut area and
//! paste offset; copy: the A1 printer at the target cell on the node the parser built at the source cell.
//! Expected texts are assembled from `$`, `number_to_column` and the row number - not from the printer under test.
use super::{ref_is_in_area, to_string_moved, MoveContext};
use crate::constants::{LAST_COLUMN, LAST_ROW};
use crate::expressions::parser::stringify::{stringify_reference, DisplaceData};
use crate::expressions::parser::{Node, Reference};
use crate::expressions::types::{Area, CellReferenceRC};
use crate::expressions::utils::number_to_column;
use crate::language::get_default_language;
use crate::locale::get_default_locale;
use crate::verif::rt::*;

// quick-tier coordinate window (digit/letter counts fork): rows 1..=120, columns 1..=30
const QR: i32 = 120;
const QC: i32 = 30;

/// the A1 text of (row, col) with the given `$` flags, or #REF! off the grid - written from the property
fn a1(row: i32, col: i32, abs_row: bool, abs_col: bool) -> String {
    if row < 1 || row > LAST_ROW || col < 1 || col > LAST_COLUMN { return "#REF!".to_string(); }
    let letters = match number_to_column(col) { Some(s) => s, None => return "#REF!".to_string() };
    format!("{}{}{}{}", if abs_col { "$" } else { "" }, letters, if abs_row { "$" } else { "" }, row)
}

pub fn h_c16_ref_in_area() {
    let (sheet, s2) = (any_u32(), any_u32());
    let (row, col) = (any_i32_in(1, LAST_ROW), any_i32_in(1, LAST_COLUMN));
    let area = Area { sheet: s2, row: any_i32_in(1, LAST_ROW), column: any_i32_in(1, LAST_COLUMN), width: any_i32_in(1, LAST_COLUMN), height: any_i32_in(1, LAST_ROW) };
    let want = (sheet == s2) & (area.row <= row) & (row < area.row + area.height) & (area.column <= col) & (col < area.column + area.width);
    check("C16.ref_is_in_area", ref_is_in_area(sheet, row, col, &area) == want);
    reach("C16.ref_is_in_area");
}

struct Cut { src_row: i32, src_col: i32, area: Area, dr: i32, dc: i32, other_sheet: bool }
fn any_cut() -> Cut {
    let area = Area { sheet: 2, row: any_i32_in(1, QR), column: any_i32_in(1, QC), width: any_i32_in(1, QC), height: any_i32_in(1, QR) };
    Cut { src_row: any_i32_in(1, QR), src_col: any_i32_in(1, QC), area, dr: any_i32_in(-QR, QR), dc: any_i32_in(-QC, QC), other_sheet: any_bool() }
}
fn moved_text(node: &Node, c: &Cut) -> String {
    let ctx = MoveContext { source_sheet_name: "Src", row: c.src_row, column: c.src_col, area: &c.area,
                            target_sheet_name: if c.other_sheet { "Dst" } else { "Src" }, row_delta: c.dr, column_delta: c.dc };
    to_string_moved(node, &ctx, get_default_locale(), get_default_language())
}

/// a reference to a cut cell points to where the cell went; any other reference keeps pointing at its cell (and
/// gets the source sheet's name when the formula itself moves to another sheet)
pub fn h_c16_cut_reference() {
    let c = any_cut();
    let (row, col) = (any_i32_in(1, QR), any_i32_in(1, QC));
    let (ar, ac) = (any_bool(), any_bool());
    let on_cut_sheet = any_bool();
    let node = Node::ReferenceKind { sheet_name: None, sheet_index: if on_cut_sheet { 2 } else { 5 }, absolute_row: ar, absolute_column: ac,
        row: if ar { row } else { row - c.src_row }, column: if ac { col } else { col - c.src_col } };
    let inside = on_cut_sheet & (c.area.row <= row) & (row < c.area.row + c.area.height) & (c.area.column <= col) & (col < c.area.column + c.area.width);
    let want = if inside { a1(row + c.dr, col + c.dc, ar, ac) }
               else if c.other_sheet { format!("Src!{}", a1(row, col, ar, ac)) } else { a1(row, col, ar, ac) };
    check("C16.cut.reference", moved_text(&node, &c) == want);
    reach("C16.cut.reference");
}

/// a range moves only if both corners lie in the cut area
pub fn h_c16_cut_range() {
    let c = any_cut();
    let (r1, c1, r2, c2) = (any_i32_in(1, QR), any_i32_in(1, QC), any_i32_in(1, QR), any_i32_in(1, QC));
    let on_cut_sheet = any_bool();
    // absolute corners keep the case count down; relative/absolute handling is the single-reference harness' job
    let node = Node::RangeKind { sheet_name: None, sheet_index: if on_cut_sheet { 2 } else { 5 },
        absolute_row1: true, absolute_column1: true, row1: r1, column1: c1, absolute_row2: true, absolute_column2: true, row2: r2, column2: c2 };
    let a = &c.area;
    let in1 = (a.row <= r1) & (r1 < a.row + a.height) & (a.column <= c1) & (c1 < a.column + a.width);
    let in2 = (a.row <= r2) & (r2 < a.row + a.height) & (a.column <= c2) & (c2 < a.column + a.width);
    let (dr, dc) = if on_cut_sheet & in1 & in2 { (c.dr, c.dc) } else { (0, 0) };
    let prefix = if !(on_cut_sheet & in1 & in2) && c.other_sheet { "Src!" } else { "" };
    let want = format!("{}{}:{}", prefix, a1(r1 + dr, c1 + dc, true, true), a1(r2 + dr, c2 + dc, true, true));
    check("C16.cut.range", moved_text(&node, &c) == want);
    reach("C16.cut.range");
}

/// copy & paste: the node built at the source cell, printed at the target cell, shifts its relative parts by the
/// paste offset and keeps its absolute parts; off the grid => #REF!
pub fn h_c16_copy_reference() {
    let (sr, sc, tr, tc) = (any_i32_in(1, QR), any_i32_in(1, QC), any_i32_in(1, QR), any_i32_in(1, QC));
    let (row, col) = (any_i32_in(1, QR), any_i32_in(1, QC));
    let (ar, ac) = (any_bool(), any_bool());
    let reference = Reference { sheet_name: &None, sheet_index: 0, absolute_row: ar, absolute_column: ac,
        row: if ar { row } else { row - sr }, column: if ac { col } else { col - sc } };
    let ctx = CellReferenceRC { sheet: "S".to_string(), row: tr, column: tc };
    let got = stringify_reference(Some(&ctx), &DisplaceData::None, &reference, false, false);
    let want = a1(if ar { row } else { row + (tr - sr) }, if ac { col } else { col + (tc - sc) }, ar, ac);
    check("C16.copy.reference", got == want);
    reach("C16.copy.reference");
}
