//@parent user_model::common
//! UserModel step harnesses (C01 undo, C02 redo, C03 replica, C04 failed op changes nothing, C28 selection):
//! one operation (and its undo / redo) from an arbitrary cell-free workbook with symbolic sheet furniture,
//! history built by the operation itself.  Evaluation is paused (a public switch), so the evaluator is never entered.
use super::UserModel;
use crate::constants::{LAST_COLUMN, LAST_ROW};
use crate::types::*;
use crate::verif::rt::*;
use crate::verif::st::*;

/// 1..=max sheets.  `furniture`: every sheet has one column descriptor and one row record with symbolic
/// position and flags (a probe outside them sees the defaults), symbolic frozen panes and grid lines.
/// `states`: symbolic visibility per sheet (at least one visible), otherwise all visible.
/// A valid selection on every sheet, any selected sheet.
pub fn any_workbook_with(max_sheets: usize, furniture: bool, states: bool) -> Workbook {
    let n = any_usize_to(max_sheets);
    assume(n >= 1);
    let mut sheets: Vec<Worksheet> = Vec::new();
    let mut visible = false;
    let mut i = 0;
    while i < n {
        let name = if i == 0 { "Sheet1" } else if i == 1 { "Sheet2" } else { "Sheet3" };
        let mut ws = empty_sheet(name, 7 + i as u32);
        if furniture {
            // descriptors span at most 3 columns (stated bound: several operations walk over hidden columns one by one)
            let (min, max) = (any_col_index(), any_col_index());
            assume((min <= max) & (max - min <= 2));
            ws.cols = vec![Col { min, max, width: FIXED_W[i], custom_width: any_bool(), hidden: any_bool(),
                                 style: if i == 0 { Some(any_i32()) } else { None } }];
            ws.rows = vec![Row { r: any_row_index(), height: FIXED_W[i + 1], custom_format: any_bool(), custom_height: any_bool(),
                                 s: any_i32(), hidden: any_bool() }];
            if i == 0 {
                // one hyperlink at a symbolic cell
                ws.links.insert((any_row_index(), any_col_index()), Link::Internal { location: "L0".to_string(), tooltip: None });
            }
            ws.frozen_rows = any_i32_in(0, LAST_ROW - 1);
            ws.frozen_columns = any_i32_in(0, LAST_COLUMN - 1);
            ws.show_grid_lines = any_bool();
        }
        if states && any_bool() { ws.state = SheetState::Hidden; } else { visible = true; }
        if i == 1 { ws.color = Color::Rgb("#112233".to_string()); }
        let (r, c) = (any_row_index(), any_col_index());
        let (r1, c1, r2, c2) = (any_row_index(), any_col_index(), any_row_index(), any_col_index());
        assume((r1 <= r) & (r <= r2) & (c1 <= c) & (c <= c2));
        ws.views.insert(0, WorksheetView { row: r, column: c, range: [r1, c1, r2, c2], top_row: 1, left_column: 1 });
        sheets.push(ws);
        i += 1;
    }
    assume(visible);
    let sel = any_u32();
    assume((sel as usize) < n);
    workbook_with(sheets, sel)
}

pub fn any_user_model(max_sheets: usize, furniture: bool, states: bool) -> UserModel<'static> { user_model_paused(any_workbook_with(max_sheets, furniture, states)) }

/// what the property lists as observable for one sheet (selection / view state is not part of C01-C03),
/// columns and rows at the symbolic probes (x, y); fork-free
fn sheet_obs_eq(a: &Worksheet, b: &Worksheet, x: i32, y: i32) -> bool {
    (a.name == b.name) & (a.state == b.state) & (a.color == b.color) & (a.sheet_id == b.sheet_id)
        & (a.frozen_rows == b.frozen_rows) & (a.frozen_columns == b.frozen_columns)
        & (a.show_grid_lines == b.show_grid_lines) & (a.links == b.links)
        & col_obs_same(&a.cols, x, &b.cols, x) & row_obs_same(&a.rows, y, &b.rows, y)
}

pub fn obs_eq(a: &[Worksheet], b: &[Worksheet], x: i32, y: i32) -> bool {
    if a.len() != b.len() { return false; }
    let mut ok = true;
    let mut i = 0;
    while i < a.len() { ok &= sheet_obs_eq(&a[i], &b[i], x, y); i += 1; }
    ok
}

/// C28: the selection designates an existing sheet and a cell inside the selected range inside the grid
pub fn selection_valid(um: &UserModel) -> bool {
    let wb = &um.model.workbook;
    let sel = match wb.views.get(&0) { Some(v) => v.sheet, None => return false };
    if (sel as usize) >= wb.worksheets.len() { return false; }
    let v = match wb.worksheets[sel as usize].views.get(&0) { Some(v) => v, None => return false };
    // the range is the rectangle spanned by its two corners, whichever order they are stored in
    let [ra, ca, rb, cb] = v.range;
    let (r1, r2, c1, c2) = (ra.min(rb), ra.max(rb), ca.min(cb), ca.max(cb));
    (1 <= r1) & (r1 <= v.row) & (v.row <= r2) & (r2 <= LAST_ROW) & (1 <= c1) & (c1 <= v.column) & (v.column <= c2) & (c2 <= LAST_COLUMN)
}

/// the operations of the family; `k` selects one, arguments are unconstrained symbols
fn apply_op(um: &mut UserModel, k: u8, sheet: u32, a: i32, b: i32, w: f64, flag: bool) -> Result<(), String> {
    match k {
        0 => um.set_columns_width(sheet, a, b, w),
        1 => um.set_rows_height(sheet, a, b, w),
        2 => um.set_columns_hidden(sheet, a, b, flag),
        3 => um.set_rows_hidden(sheet, a, b, flag),
        4 => um.set_frozen_rows_count(sheet, a),
        5 => um.set_frozen_columns_count(sheet, a),
        6 => um.set_show_grid_lines(sheet, flag),
        7 => um.set_sheet_color(sheet, &(if flag { Color::Rgb("#AABBCC".to_string()) } else { Color::None })),
        8 => um.hide_sheet(sheet),
        9 => um.unhide_sheet(sheet),
        10 => um.delete_sheet(sheet),
        11 => um.new_sheet(),
        12 => um.move_sheet(sheet, a as u32),
        13 => um.insert_rows(sheet, a, b),
        14 => um.insert_columns(sheet, a, b),
        15 => um.delete_rows(sheet, a, b),
        16 => um.delete_columns(sheet, a, b),
        17 => um.move_rows_action(sheet, a, if flag { 2 } else { 1 }, b),
        18 => um.move_columns_action(sheet, a, 1, b),
        _ => um.duplicate_sheet(sheet),
    }
}
const NOPS: u8 = 20;

/// arguments for which the operation is meant to succeed, with small spans (stated bound)
fn valid_args(k: u8, nsheets: usize) -> (u32, i32, i32, f64, bool) {
    let sheet = any_u32();
    assume((sheet as usize) < nsheets);
    let flag = any_bool();
    let (mut a, mut b, mut w) = (0, 0, 0.0);
    if k == 0 || k == 2 { a = any_col_index(); b = any_i32_in(a, a + 1); assume(b <= LAST_COLUMN); }
    if k == 1 || k == 3 { a = any_row_index(); b = any_i32_in(a, a + 1); assume(b <= LAST_ROW); }
    if k == 0 { w = if flag { 45.0 } else { 117.0 }; }
    if k == 1 { w = if flag { 25.0 } else { 50.0 }; }
    if k == 4 { a = any_i32_in(0, LAST_ROW - 1); }
    if k == 5 { a = any_i32_in(0, LAST_COLUMN - 1); }
    if k == 12 { a = any_i32_in(0, nsheets as i32 - 1); }
    if k == 13 { a = any_row_index(); b = any_i32_in(1, LAST_ROW); }
    if k == 14 { a = any_col_index(); b = any_i32_in(1, LAST_COLUMN); }
    if k == 15 { a = any_row_index(); b = any_i32_in(1, 2); }
    if k == 16 { a = any_col_index(); b = any_i32_in(1, 2); }
    if k == 17 { a = any_row_index(); b = any_i32_in(-2, 2); assume(b != 0); }
    // column moves rebuild descriptors column by column: offsets of one column (hidden columns in the landing zone extend it)
    if k == 18 { a = any_col_index(); b = any_i32_in(-1, 1); assume(b != 0); }
    (sheet, a, b, w, flag)
}

fn undo_step(k: u8, id_undo: &'static str, id_redo: &'static str, id_sel: &'static str) {
    let sheet_op = (k >= 8 && k <= 12) || k == 19;
    let mut um = if sheet_op { any_user_model(3, true, true) } else { any_user_model(2, true, false) };
    let n = um.model.workbook.worksheets.len();
    let (sheet, a, b, w, flag) = valid_args(k, n);
    let (x, y) = (any_col_index(), any_row_index());
    let before = um.model.workbook.worksheets.clone();
    if apply_op(&mut um, k, sheet, a, b, w, flag).is_ok() {
        check(id_sel, selection_valid(&um));
        let after = um.model.workbook.worksheets.clone();
        if sheet_op {
            // the user may look at any other sheet before undoing
            let other = any_u32();
            assume((other as usize) < um.model.workbook.worksheets.len());
            if um.set_selected_sheet(other).is_err() { return; }
        }
        if um.undo().is_ok() {
            check(id_undo, obs_eq(&before, &um.model.workbook.worksheets, x, y));
            check(id_sel, selection_valid(&um));
            if um.redo().is_ok() {
                check(id_redo, obs_eq(&after, &um.model.workbook.worksheets, x, y));
                check(id_sel, selection_valid(&um));
            }
        }
    }
}

pub fn h_c01_columns_width() { undo_step(0, "C01.columns_width.undo", "C02.columns_width.redo", "C28.columns_width.selection"); reach("C01.columns_width"); }
pub fn h_c01_rows_height() { undo_step(1, "C01.rows_height.undo", "C02.rows_height.redo", "C28.rows_height.selection"); reach("C01.rows_height"); }
pub fn h_c01_columns_hidden() { undo_step(2, "C01.columns_hidden.undo", "C02.columns_hidden.redo", "C28.columns_hidden.selection"); reach("C01.columns_hidden"); }
pub fn h_c01_rows_hidden() { undo_step(3, "C01.rows_hidden.undo", "C02.rows_hidden.redo", "C28.rows_hidden.selection"); reach("C01.rows_hidden"); }
pub fn h_c01_frozen_rows() { undo_step(4, "C01.frozen_rows.undo", "C02.frozen_rows.redo", "C28.frozen_rows.selection"); reach("C01.frozen_rows"); }
pub fn h_c01_frozen_columns() { undo_step(5, "C01.frozen_columns.undo", "C02.frozen_columns.redo", "C28.frozen_columns.selection"); reach("C01.frozen_columns"); }
pub fn h_c01_grid_lines() { undo_step(6, "C01.grid_lines.undo", "C02.grid_lines.redo", "C28.grid_lines.selection"); reach("C01.grid_lines"); }
pub fn h_c01_sheet_color() { undo_step(7, "C01.sheet_color.undo", "C02.sheet_color.redo", "C28.sheet_color.selection"); reach("C01.sheet_color"); }
pub fn h_c01_hide_sheet() { undo_step(8, "C01.hide_sheet.undo", "C02.hide_sheet.redo", "C28.hide_sheet.selection"); reach("C01.hide_sheet"); }
pub fn h_c01_unhide_sheet() { undo_step(9, "C01.unhide_sheet.undo", "C02.unhide_sheet.redo", "C28.unhide_sheet.selection"); reach("C01.unhide_sheet"); }
pub fn h_c01_delete_sheet() { undo_step(10, "C01.delete_sheet.undo", "C02.delete_sheet.redo", "C28.delete_sheet.selection"); reach("C01.delete_sheet"); }
pub fn h_c01_new_sheet() { undo_step(11, "C01.new_sheet.undo", "C02.new_sheet.redo", "C28.new_sheet.selection"); reach("C01.new_sheet"); }
pub fn h_c01_move_sheet() { undo_step(12, "C01.move_sheet.undo", "C02.move_sheet.redo", "C28.move_sheet.selection"); reach("C01.move_sheet"); }
pub fn h_c01_insert_rows() { undo_step(13, "C01.insert_rows.undo", "C02.insert_rows.redo", "C28.insert_rows.selection"); reach("C01.insert_rows"); }
pub fn h_c01_insert_columns() { undo_step(14, "C01.insert_columns.undo", "C02.insert_columns.redo", "C28.insert_columns.selection"); reach("C01.insert_columns"); }
pub fn h_c01_delete_rows() { undo_step(15, "C01.delete_rows.undo", "C02.delete_rows.redo", "C28.delete_rows.selection"); reach("C01.delete_rows"); }
pub fn h_c01_delete_columns() { undo_step(16, "C01.delete_columns.undo", "C02.delete_columns.redo", "C28.delete_columns.selection"); reach("C01.delete_columns"); }
pub fn h_c01_move_rows() { undo_step(17, "C01.move_rows.undo", "C02.move_rows.redo", "C28.move_rows.selection"); reach("C01.move_rows"); }
pub fn h_c01_move_columns() { undo_step(18, "C01.move_columns.undo", "C02.move_columns.redo", "C28.move_columns.selection"); reach("C01.move_columns"); }
pub fn h_c01_duplicate_sheet() { undo_step(19, "C01.duplicate_sheet.undo", "C02.duplicate_sheet.redo", "C28.duplicate_sheet.selection"); reach("C01.duplicate_sheet"); }

// ------------------------------------------------------------------------------------- C04

/// a failed operation changes nothing: unconstrained arguments, one earlier successful operation in the
/// history (so that "no undo entry is added" and "the redo list is not discarded" are both observable after
/// undoing it), whole-workbook equality (derived PartialEq) because nothing at all may change
fn failed_op_step(k: u8, id: &'static str) {
    let sheet_op = k >= 8 && k <= 12;
    let mut um = if sheet_op { any_user_model(3, false, true) } else { any_user_model(1, true, false) };
    // history: one grid-lines toggle, undone => undo stack empty, redo stack holds one entry
    let with_redo = any_bool();
    if um.set_show_grid_lines(0, true).is_err() { return; }
    if with_redo { if um.undo().is_err() { return; } }
    let (sheet, a, b, flag) = (any_u32(), any_i32(), any_i32(), any_bool());
    // sizes: a valid one, a negative one, NaN, +inf (concrete: the setters divide by the unit factor, and a
    // symbolic f64 division does not come back from the solver)
    let wk = any_u8();
    assume(wk < 4);
    let w = if wk == 0 { 45.0 } else if wk == 1 { -1.0 } else if wk == 2 { f64::NAN } else { f64::INFINITY };
    // stated bounds: |a|, |b| <= 4_000_000 (far outside the grid on both sides, no i32 overflow in the callee's index
    // arithmetic); loops over the arguments stay short: spans and counts of at most 3 lines, single-line moves by at most 3
    assume((-4_000_000 <= a) & (a <= 4_000_000) & (-4_000_000 <= b) & (b <= 4_000_000));
    if k <= 3 { assume(b - a <= 2); }
    if k == 15 || k == 16 { assume(b <= 3); }
    if k == 17 || k == 18 { assume((-3 <= b) & (b <= 3)); }
    let before = um.model.workbook.clone();
    let (nu, nr, nq) = (um.history.undo_stack.len(), um.history.redo_stack.len(), um.send_queue.len());
    if apply_op(&mut um, k, sheet, a, b, w, flag).is_err() {
        check(id, (um.model.workbook == before) & (um.history.undo_stack.len() == nu) & (um.history.redo_stack.len() == nr)
                  & (um.send_queue.len() == nq));
    }
}
pub fn h_c04_columns_width() { failed_op_step(0, "C04.columns_width.unchanged"); reach("C04.columns_width"); }
pub fn h_c04_rows_height() { failed_op_step(1, "C04.rows_height.unchanged"); reach("C04.rows_height"); }
pub fn h_c04_columns_hidden() { failed_op_step(2, "C04.columns_hidden.unchanged"); reach("C04.columns_hidden"); }
pub fn h_c04_rows_hidden() { failed_op_step(3, "C04.rows_hidden.unchanged"); reach("C04.rows_hidden"); }
pub fn h_c04_frozen_rows() { failed_op_step(4, "C04.frozen_rows.unchanged"); reach("C04.frozen_rows"); }
pub fn h_c04_frozen_columns() { failed_op_step(5, "C04.frozen_columns.unchanged"); reach("C04.frozen_columns"); }
pub fn h_c04_grid_lines() { failed_op_step(6, "C04.grid_lines.unchanged"); reach("C04.grid_lines"); }
pub fn h_c04_sheet_color() { failed_op_step(7, "C04.sheet_color.unchanged"); reach("C04.sheet_color"); }
pub fn h_c04_hide_sheet() { failed_op_step(8, "C04.hide_sheet.unchanged"); reach("C04.hide_sheet"); }
pub fn h_c04_unhide_sheet() { failed_op_step(9, "C04.unhide_sheet.unchanged"); reach("C04.unhide_sheet"); }
pub fn h_c04_delete_sheet() { failed_op_step(10, "C04.delete_sheet.unchanged"); reach("C04.delete_sheet"); }
pub fn h_c04_move_sheet() { failed_op_step(12, "C04.move_sheet.unchanged"); reach("C04.move_sheet"); }
pub fn h_c04_insert_rows() { failed_op_step(13, "C04.insert_rows.unchanged"); reach("C04.insert_rows"); }
pub fn h_c04_insert_columns() { failed_op_step(14, "C04.insert_columns.unchanged"); reach("C04.insert_columns"); }
pub fn h_c04_delete_rows() { failed_op_step(15, "C04.delete_rows.unchanged"); reach("C04.delete_rows"); }
pub fn h_c04_delete_columns() { failed_op_step(16, "C04.delete_columns.unchanged"); reach("C04.delete_columns"); }
pub fn h_c04_move_rows() { failed_op_step(17, "C04.move_rows.unchanged"); reach("C04.move_rows"); }
pub fn h_c04_move_columns() { failed_op_step(18, "C04.move_columns.unchanged"); reach("C04.move_columns"); }

// ------------------------------------------------------------------------------------- C02 history cursor

use crate::user_model::history::{Diff, History};

fn tagged(tag: i32) -> Vec<Diff> { vec![Diff::SetFrozenRowsCount { sheet: 0, new_value: tag, old_value: 0 }] }
fn tag_of(l: &Option<Vec<Diff>>) -> Option<i32> {
    match l {
        Some(v) => match v.first() { Some(Diff::SetFrozenRowsCount { new_value, .. }) => Some(*new_value), _ => Some(-1) },
        None => None,
    }
}

/// any sequence of <=5 push / undo / redo calls behaves like a cursor over the list of operations:
/// push truncates everything after the cursor, undo/redo move it and hand back the operation they cross
pub fn h_c02_history_cursor() {
    let mut h = History::default();
    let mut ops: Vec<i32> = Vec::new();
    let mut cur: usize = 0;
    let mut step = 0;
    while step < 5 {
        let op = any_u8();
        assume(op < 3);
        if op == 0 {
            let tag = 100 + step;
            h.push(tagged(tag));
            ops.truncate(cur);
            ops.push(tag);
            cur += 1;
        } else if op == 1 {
            let got = h.undo();
            let want = if cur > 0 { cur -= 1; Some(ops[cur]) } else { None };
            check("C02.history.undo_returns_last", tag_of(&got) == want);
        } else {
            let got = h.redo();
            let want = if cur < ops.len() { cur += 1; Some(ops[cur - 1]) } else { None };
            check("C02.history.redo_returns_next", tag_of(&got) == want);
        }
        check("C02.history.cursor", (h.undo_stack.len() == cur) & (h.redo_stack.len() == ops.len() - cur));
        step += 1;
    }
    reach("C02.history");
}

// ------------------------------------------------------------------------------------- C03 replica

/// a second model of the same workbook that applies the primary's outgoing queue entry by entry - the loop of
/// `apply_external_diffs`, with the bitcode encoding of the queue cut out - shows the same observables
fn replica_step(k: u8, id: &'static str) {
    let sheet_op = (k >= 8 && k <= 12) || k == 19;
    let wb = if sheet_op { any_workbook_with(3, true, true) } else { any_workbook_with(2, true, false) };
    let mut primary = user_model_paused(wb.clone());
    let mut replica = user_model_paused(wb);
    let n = primary.model.workbook.worksheets.len();
    let (sheet, a, b, w, flag0) = valid_args(k, n);
    // single-row moves here (the two-row block is exercised by the undo/redo harnesses)
    let flag = if k == 17 { false } else { flag0 };
    let (x, y) = (any_col_index(), any_row_index());
    if apply_op(&mut primary, k, sheet, a, b, w, flag).is_err() { return; }
    // schedules: 0 op|flush   1 op,undo|flush   2 op|flush|undo|flush   3 op,undo,redo|flush
    let sched = any_u8();
    assume(sched < 4);
    let mut applied_early = true;
    if sched == 2 {
        let bytes = primary.flush_send_queue();
        applied_early = replica.apply_external_diffs(&bytes).is_ok();
    }
    if sched >= 1 { if primary.undo().is_err() { return; } }
    if sched == 3 { if primary.redo().is_err() { return; } }
    // the replica receives what the primary flushed, through the real flush_send_queue / apply_external_diffs
    let bytes = primary.flush_send_queue();
    let applied = replica.apply_external_diffs(&bytes).is_ok();
    check(id, applied_early && applied && obs_eq(&primary.model.workbook.worksheets, &replica.model.workbook.worksheets, x, y));
}
pub fn h_c03_columns_width() { replica_step(0, "C03.columns_width.converges"); reach("C03.columns_width"); }
pub fn h_c03_rows_height() { replica_step(1, "C03.rows_height.converges"); reach("C03.rows_height"); }
pub fn h_c03_columns_hidden() { replica_step(2, "C03.columns_hidden.converges"); reach("C03.columns_hidden"); }
pub fn h_c03_rows_hidden() { replica_step(3, "C03.rows_hidden.converges"); reach("C03.rows_hidden"); }
pub fn h_c03_frozen_rows() { replica_step(4, "C03.frozen_rows.converges"); reach("C03.frozen_rows"); }
pub fn h_c03_frozen_columns() { replica_step(5, "C03.frozen_columns.converges"); reach("C03.frozen_columns"); }
pub fn h_c03_grid_lines() { replica_step(6, "C03.grid_lines.converges"); reach("C03.grid_lines"); }
pub fn h_c03_sheet_color() { replica_step(7, "C03.sheet_color.converges"); reach("C03.sheet_color"); }
pub fn h_c03_hide_sheet() { replica_step(8, "C03.hide_sheet.converges"); reach("C03.hide_sheet"); }
pub fn h_c03_unhide_sheet() { replica_step(9, "C03.unhide_sheet.converges"); reach("C03.unhide_sheet"); }
pub fn h_c03_delete_sheet() { replica_step(10, "C03.delete_sheet.converges"); reach("C03.delete_sheet"); }
pub fn h_c03_new_sheet() { replica_step(11, "C03.new_sheet.converges"); reach("C03.new_sheet"); }
pub fn h_c03_move_sheet() { replica_step(12, "C03.move_sheet.converges"); reach("C03.move_sheet"); }
pub fn h_c03_insert_rows() { replica_step(13, "C03.insert_rows.converges"); reach("C03.insert_rows"); }
pub fn h_c03_insert_columns() { replica_step(14, "C03.insert_columns.converges"); reach("C03.insert_columns"); }
pub fn h_c03_delete_rows() { replica_step(15, "C03.delete_rows.converges"); reach("C03.delete_rows"); }
pub fn h_c03_delete_columns() { replica_step(16, "C03.delete_columns.converges"); reach("C03.delete_columns"); }
pub fn h_c03_move_rows() { replica_step(17, "C03.move_rows.converges"); reach("C03.move_rows"); }
pub fn h_c03_move_columns() { replica_step(18, "C03.move_columns.converges"); reach("C03.move_columns"); }

// ------------------------------------------------------------------------------------- C28 selection setters / arrows

/// after any selection setter or arrow key (arguments unconstrained) the selection is still valid, whether the call
/// succeeded or not; hidden rows/columns are present so that the arrows have something to skip
pub fn h_c28_selection_ops() {
    let mut um = any_user_model(2, true, false);
    let k = any_u8();
    assume(k < 7);
    let (_, row, col) = um.get_selected_cell();
    let _ = match k {
        0 => um.set_selected_sheet(any_u32()),
        1 => um.set_selected_cell(any_i32(), any_i32()),
        2 => um.set_selected_range(any_i32(), any_i32(), any_i32(), any_i32()),
        3 => um.on_arrow_up(),
        4 => um.on_arrow_left(),
        // the down/right handlers add up row heights / column widths from the top-left visible cell: keep that walk short
        5 => { assume(row <= 3); um.on_arrow_down() }
        _ => { assume(col <= 3); um.on_arrow_right() }
    };
    check("C28.selection_ops.selection", selection_valid(&um));
    reach("C28.selection_ops");
}

// ------------------------------------------------------------------------------------- cells with content (C01/C02/C03)

use std::collections::HashMap as StdHashMap;

const INPUTS: [&str; 7] = ["5", "10%", "abc", "TRUE", "'12", "$3", ""];

/// one sheet with the default style pools; optionally a cell already there (number, text, styled empty cell)
fn any_cell_model() -> (UserModel<'static>, i32, i32) {
    let (r, c) = (any_row_index(), any_col_index());
    let mut ws = empty_sheet("Sheet1", 1);
    let mut wb = workbook_with_cells(vec![]);
    let mut bold = Style::default();
    bold.font.b = true;
    let bold_idx = wb.styles.get_style_index_or_create(&bold);
    let k = any_u8();
    assume(k < 4);
    if k > 0 {
        let cell = if k == 1 { Cell::NumberCell { v: 1.5, s: 0 } } else if k == 2 { Cell::SharedString { si: 0, s: bold_idx } } else { Cell::EmptyCell { s: bold_idx } };
        let mut row: StdHashMap<i32, Cell> = StdHashMap::new();
        row.insert(c, cell);
        ws.sheet_data.insert(r, row);
    }
    wb.worksheets = vec![ws];
    (user_model_paused(wb), r, c)
}

/// what the property lists for one cell: its record (content, type, style index), the style it shows, its link, its row's height
fn cell_obs(um: &UserModel, r: i32, c: i32) -> ((u8, f64, bool, i32), Result<Style, String>, Option<Link>, Result<f64, String>) {
    let ws = &um.model.workbook.worksheets[0];
    let cell = match ws.sheet_data.get(&r) { Some(row) => row.get(&c).cloned(), None => None };
    // content and value type; a missing cell and an empty cell show the same, the style is compared as a Style
    let content = match cell {
        None | Some(Cell::EmptyCell { .. }) => (0, 0.0, false, 0),
        Some(Cell::NumberCell { v, .. }) => (1, v, false, 0),
        Some(Cell::BooleanCell { v, .. }) => (2, 0.0, v, 0),
        Some(Cell::SharedString { si, .. }) => (3, 0.0, false, si),
        Some(Cell::ErrorCell { .. }) => (4, 0.0, false, 0),
        Some(_) => (5, 0.0, false, 0),
    };
    (content, um.model.get_style_for_cell(0, r, c), ws.links.get(&(r, c)).cloned(), um.model.get_row_height(0, r))
}

/// typing into a cell, undo, redo
pub fn h_c01_cell_input() {
    let (mut um, r, c) = any_cell_model();
    let same_cell = any_bool();
    let (tr, tc) = if same_cell { (r, c) } else { (any_row_index(), any_col_index()) };
    let i = any_usize_to(INPUTS.len() - 1);
    let before = (cell_obs(&um, r, c), cell_obs(&um, tr, tc));
    let no_cell_before = match um.model.workbook.worksheets[0].sheet_data.get(&tr) { Some(row) => !row.contains_key(&tc), None => true };
    if um.set_user_input(0, tr, tc, INPUTS[i]).is_ok() {
        let after = (cell_obs(&um, r, c), cell_obs(&um, tr, tc));
        // KF-C01-4: undo of an input into a position that held no cell clears the contents but keeps the style the
        // input implied (10% -> percent format, $3 -> currency, '12 -> quote prefix)
        let implied_style = no_cell_before & (after.1 .1 != before.1 .1);
        if um.undo().is_ok() {
            check_kf("C01.cell_input.undo", (cell_obs(&um, r, c), cell_obs(&um, tr, tc)) == before, "KF-C01-4", implied_style);
            if um.redo().is_ok() {
                check("C02.cell_input.redo", (cell_obs(&um, r, c), cell_obs(&um, tr, tc)) == after);
            }
        }
    }
    reach("C01.cell_input");
}

/// the same input reaches a replica through the flushed queue (op, or op then undo)
pub fn h_c03_cell_input() {
    let (mut primary, r, c) = any_cell_model();
    let wb = primary.model.workbook.clone();
    let mut replica = user_model_paused(wb);
    let (tr, tc) = if any_bool() { (r, c) } else { (any_row_index(), any_col_index()) };
    let i = any_usize_to(INPUTS.len() - 1);
    if primary.set_user_input(0, tr, tc, INPUTS[i]).is_err() { return; }
    let bytes = primary.flush_send_queue();
    let applied = replica.apply_external_diffs(&bytes).is_ok();
    check("C03.cell_input.converges", applied && (cell_obs(&primary, r, c), cell_obs(&primary, tr, tc)) == (cell_obs(&replica, r, c), cell_obs(&replica, tr, tc)));
    reach("C03.cell_input");
}

/// a rejected input (row, column or sheet out of range) changes nothing
pub fn h_c04_cell_input() {
    let (mut um, _r, _c) = any_cell_model();
    let (sheet, tr, tc) = (any_u32(), any_i32(), any_i32());
    let i = any_usize_to(INPUTS.len() - 1);
    let before = um.model.workbook.clone();
    let (nu, nr, nq) = (um.history.undo_stack.len(), um.history.redo_stack.len(), um.send_queue.len());
    if um.set_user_input(sheet, tr, tc, INPUTS[i]).is_err() {
        check("C04.cell_input.unchanged", (um.model.workbook == before) & (um.history.undo_stack.len() == nu) & (um.history.redo_stack.len() == nr) & (um.send_queue.len() == nq));
    }
    reach("C04.cell_input");
}

/// a failed block move at the end of the grid on a sheet that holds cells: nothing may be lost half way
/// (two adjacent number cells and two adjacent hidden lines in the last five rows / columns of the grid; block of <=2 lines, offset within +-2)
pub fn h_c04_move_lines_with_cells() {
    let rows = any_bool();
    let last = if rows { LAST_ROW } else { LAST_COLUMN };
    let mut ws = empty_sheet("Sheet1", 1);
    let p = any_i32_in(last - 4, last - 1);
    let q = p + 1;
    if rows {
        let mut r1: StdHashMap<i32, Cell> = StdHashMap::new();
        r1.insert(2, Cell::NumberCell { v: 1.5, s: 0 });
        ws.sheet_data.insert(p, r1);
        let mut r2: StdHashMap<i32, Cell> = StdHashMap::new();
        r2.insert(2, Cell::NumberCell { v: 2.5, s: 0 });
        ws.sheet_data.insert(q, r2);
    } else {
        let mut r1: StdHashMap<i32, Cell> = StdHashMap::new();
        r1.insert(p, Cell::NumberCell { v: 1.5, s: 0 });
        r1.insert(q, Cell::NumberCell { v: 2.5, s: 0 });
        ws.sheet_data.insert(2, r1);
    }
    // one hidden line near the end: the UserModel widens the offset by the hidden lines it jumps over
    let h = any_i32_in(last - 3, last - 1);
    if rows {
        ws.rows.push(Row { r: h, height: 15.0, custom_format: false, custom_height: false, s: 0, hidden: true });
        ws.rows.push(Row { r: h + 1, height: 15.0, custom_format: false, custom_height: false, s: 0, hidden: true });
    } else { ws.cols.push(Col { min: h, max: h + 1, width: 10.0, custom_width: false, style: None, hidden: true }); }
    let mut wb = workbook_with_cells(vec![]);
    wb.worksheets = vec![ws];
    let mut um = user_model_paused(wb);
    let (line, count, delta) = (any_i32_in(last - 5, last + 1), any_i32_in(1, 2), any_i32_in(-2, 2));
    let before = um.model.workbook.clone();
    let (nu, nr, nq) = (um.history.undo_stack.len(), um.history.redo_stack.len(), um.send_queue.len());
    let res = if rows { um.move_rows_action(0, line, count, delta) } else { um.move_columns_action(0, line, count, delta) };
    if res.is_err() {
        check("C04.move_lines_with_cells.unchanged", (um.model.workbook == before) & (um.history.undo_stack.len() == nu) & (um.history.redo_stack.len() == nr) & (um.send_queue.len() == nq));
    }
    reach("C04.move_lines_with_cells");
}

// ------------------------------------------------------------------------------------- formulas under undo (C01/C02)

fn formula_model() -> Option<UserModel<'static>> {
    let mut um = user_model_paused(workbook_with_cells(vec![empty_sheet("Sheet1", 1), empty_sheet("Sheet2", 2)]));
    if um.set_user_input(0, 20, 7, "=B2+$C$3+D10:E12").is_err() { return None; }
    if um.set_user_input(1, 3, 2, "=Sheet1!B2*2").is_err() { return None; }
    Some(um)
}
fn formulas_of(um: &UserModel) -> (String, String) {
    (um.model.get_cell_formula(0, 20, 7).unwrap_or(None).unwrap_or_default(), um.model.get_cell_formula(1, 3, 2).unwrap_or(None).unwrap_or_default())
}

/// a structural edit above/through the referenced cells, then undo: every formula text is what it was; redo: what the edit made it
pub fn h_c01_formulas_structural_undo() {
    let entered = formula_model();
    check("C01.formulas.entered", entered.is_some());
    let mut um = match entered { Some(m) => m, None => return };
    let before = formulas_of(&um);
    let k = any_u8();
    assume(k < 4);
    let (p, n) = (any_i32_in(1, 13), any_i32_in(1, 2));
    let r = if k == 0 { um.insert_rows(0, p, n) } else if k == 1 { um.delete_rows(0, p, n) }
            else if k == 2 { assume(p <= 6); um.insert_columns(0, p, n) } else { assume(p + n <= 7); um.delete_columns(0, p, n) };
    if r.is_ok() {
        let after = (um.model.get_cell_formula(0, if k == 0 { pi_insert(20, p, n) } else if k == 1 { 20 - n } else { 20 }, if k == 2 { pi_insert(7, p, n) } else if k == 3 { 7 - n } else { 7 }).unwrap_or(None).unwrap_or_default(),
                     formulas_of(&um).1);
        if um.undo().is_ok() {
            // KF-C01-5: a reference that the deletion turned into #REF! is not brought back by undo
            let hit = |x: i32| (p <= x) & (x < p + n);
            let lost_reference = ((k == 1) & (hit(2) | hit(3) | hit(10) | hit(12))) | ((k == 3) & (hit(2) | hit(3) | hit(4) | hit(5)));
            check_kf("C01.formulas_structural.undo", formulas_of(&um) == before, "KF-C01-5", lost_reference);
            if um.redo().is_ok() {
                let again = (um.model.get_cell_formula(0, if k == 0 { pi_insert(20, p, n) } else if k == 1 { 20 - n } else { 20 }, if k == 2 { pi_insert(7, p, n) } else if k == 3 { 7 - n } else { 7 }).unwrap_or(None).unwrap_or_default(),
                             formulas_of(&um).1);
                check("C02.formulas_structural.redo", again == after);
            }
        }
    }
    reach("C01.formulas_structural");
}

// ------------------------------------------------------------------------------------- defined names (C01-C04)

fn names_um() -> Option<UserModel<'static>> {
    let mut um = user_model_paused(workbook_with_cells(vec![empty_sheet("Sheet1", 1), empty_sheet("Sheet2", 2)]));
    if um.new_defined_name("Rate", None, "Sheet1!$A$1").is_err() { return None; }
    Some(um)
}
const NAME_CASES: [&str; 3] = ["Rate", "RATE", "rate"];
/// op: 0 rename + move to a sheet scope, 1 new formula + sheet scope, 2 delete (name given in any case), 3 a second name
fn name_op(um: &mut UserModel, op: u8, s: u32, c: usize) -> Result<(), String> {
    if op == 0 { um.update_defined_name(NAME_CASES[c], None, "Tax", Some(s), "Sheet1!$A$1") }
    else if op == 1 { um.update_defined_name(NAME_CASES[c], None, "Rate", Some(s), "Sheet2!$B$2") }
    else if op == 2 { um.delete_defined_name(NAME_CASES[c], None) }
    else { um.new_defined_name("Base", Some(s), "Sheet2!$B$2") }
}
fn any_name_op() -> (u8, u32, usize) {
    let (op, s, c) = (any_u8(), any_u32(), any_usize_to(NAME_CASES.len() - 1));
    assume((op < 4) & (s < 2));
    (op, s, c)
}

pub fn h_c01_defined_names() {
    let entered = names_um();
    check("C01.defined_names.entered", entered.is_some());
    let mut um = match entered { Some(m) => m, None => return };
    let (op, s, c) = any_name_op();
    let before = um.model.get_defined_name_list();
    if name_op(&mut um, op, s, c).is_err() { return; }
    let after = um.model.get_defined_name_list();
    check("C01.defined_names.changed", after != before);
    if um.undo().is_err() { check("C01.defined_names.undo", false); return; }
    check("C01.defined_names.undo", um.model.get_defined_name_list() == before);
    if um.redo().is_err() { check("C02.defined_names.redo", false); return; }
    check("C02.defined_names.redo", um.model.get_defined_name_list() == after);
    reach("C01.defined_names");
}

pub fn h_c03_defined_names() {
    let (a, b) = (names_um(), names_um());
    check("C03.defined_names.entered", a.is_some() & b.is_some());
    let (mut primary, mut replica) = match (a, b) { (Some(a), Some(b)) => (a, b), _ => return };
    // the replica already has the name (same history); drop what it would send
    let _ = primary.flush_send_queue();
    let (op, s, c) = any_name_op();
    if name_op(&mut primary, op, s, c).is_err() { return; }
    let sched = any_u8();
    assume(sched < 4);
    let mut applied_early = true;
    if sched == 2 { let bytes = primary.flush_send_queue(); applied_early = replica.apply_external_diffs(&bytes).is_ok(); }
    if sched >= 1 { if primary.undo().is_err() { return; } }
    if sched == 3 { if primary.redo().is_err() { return; } }
    let bytes = primary.flush_send_queue();
    let applied = replica.apply_external_diffs(&bytes).is_ok();
    check("C03.defined_names.converges", applied_early & applied & (primary.model.get_defined_name_list() == replica.model.get_defined_name_list()));
    reach("C03.defined_names");
}

/// failing name operations: a name that does not exist, an invalid new name, a new name that exists already, a scope that
/// does not exist - and, for contrast, the valid ones (which must not fail half way)
pub fn h_c04_defined_names() {
    let entered = names_um();
    check("C04.defined_names.entered", entered.is_some());
    let mut um = match entered { Some(m) => m, None => return };
    let k = any_u8();
    assume(k < 7);
    let c = any_usize_to(NAME_CASES.len() - 1);
    let before = um.model.workbook.clone();
    let (nu, nr, nq) = (um.history.undo_stack.len(), um.history.redo_stack.len(), um.send_queue.len());
    let res = if k == 0 { um.delete_defined_name("Nope", None) }
        else if k == 1 { um.delete_defined_name(NAME_CASES[c], Some(0)) }
        else if k == 2 { um.update_defined_name(NAME_CASES[c], None, "1A", None, "Sheet1!$A$1") }
        else if k == 3 { um.new_defined_name(NAME_CASES[c], None, "Sheet2!$B$2") }
        else if k == 4 { um.new_defined_name("Base", Some(7), "Sheet2!$B$2") }
        else if k == 5 { um.delete_defined_name(NAME_CASES[c], None) }
        else { um.update_defined_name(NAME_CASES[c], None, "Tax", Some(7), "Sheet1!$A$1") };
    if res.is_err() {
        check("C04.defined_names.unchanged", (um.model.workbook == before) & (um.history.undo_stack.len() == nu) & (um.history.redo_stack.len() == nr) & (um.send_queue.len() == nq));
    }
    reach("C04.defined_names");
}
