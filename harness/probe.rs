//! Facts about embedded tables that the encoding takes as constants; the native run prints them, the encoding must agree.
use super::rt::*;
use super::st::*;

pub fn h_probe_language_en() {
    let l = language_en();
    observe_str("code", &l.code);
    observe_str("true", &l.booleans.r#true);
    observe_str("false", &l.booleans.r#false);
    observe_str("ref", &l.errors.r#ref);
    observe_str("name", &l.errors.name);
    observe_str("value", &l.errors.value);
    observe_str("div", &l.errors.div);
    observe_str("na", &l.errors.na);
    observe_str("num", &l.errors.num);
    observe_str("nimpl", &l.errors.nimpl);
    observe_str("spill", &l.errors.spill);
    observe_str("calc", &l.errors.calc);
    observe_str("circ", &l.errors.circ);
    observe_str("error", &l.errors.error);
    observe_str("null", &l.errors.null);
    reach("probe.language_en");
}

/// native only: the language tables (name, code, booleans, errors, function names) of every language the engine
/// ships, one `code|section|key=value` line each; the engine builds its `Language` values from these
pub fn h_probe_function_names() {
    for code in ["en", "es", "de", "fr", "it"] {
        let l = match crate::language::get_language(code) { Ok(l) => l, Err(_) => continue };
        observe_str("fn", &format!("{code}|meta|name={}", l.name));
        observe_str("fn", &format!("{code}|meta|code={}", l.code));
        observe_str("fn", &format!("{code}|booleans|true={}", l.booleans.r#true));
        observe_str("fn", &format!("{code}|booleans|false={}", l.booleans.r#false));
        let e = &l.errors;
        let errs = [("ref", &e.r#ref), ("name", &e.name), ("value", &e.value), ("div", &e.div), ("na", &e.na), ("num", &e.num), ("nimpl", &e.nimpl),
                    ("spill", &e.spill), ("calc", &e.calc), ("circ", &e.circ), ("error", &e.error), ("null", &e.null)];
        for (k, v) in errs { observe_str("fn", &format!("{code}|errors|{k}={v}")); }
        for f in crate::functions::Function::into_iter() {
            observe_str("fn", &format!("{code}|functions|{:?}={}", f, f.to_localized_name(l)));
        }
    }
    reach("probe.function_names");
}
