//! Facts about embedded tables that the encoding takes as constants; the native run prints them, the encoding must agree.
use super::rt::*;
use super::st::*;

pub fn h_probe_language_en() {
    let l = language_en();
    observe_str("code", &l.code);
    observe_str("true", &l.booleans.r#true);
    observe_str("false", &l.booleans.r#false);
    observe_str("ref", &l.errors.r#ref);
    observe_str("name", &l.errors.name);
    observe_str("value", &l.errors.value);
    observe_str("div", &l.errors.div);
    observe_str("na", &l.errors.na);
    observe_str("num", &l.errors.num);
    observe_str("nimpl", &l.errors.nimpl);
    observe_str("spill", &l.errors.spill);
    observe_str("calc", &l.errors.calc);
    observe_str("circ", &l.errors.circ);
    observe_str("error", &l.errors.error);
    observe_str("null", &l.errors.null);
    reach("probe.language_en");
}

/// native only: the English function-name table (variant=NAME per line), read by the engine to build the
/// `Language.functions` value concretely
pub fn h_probe_function_names() {
    let l = language_en();
    for f in crate::functions::Function::into_iter() {
        let line = format!("{:?}={}", f, f.to_localized_name(l));
        observe_str("fn", &line);
    }
    reach("probe.function_names");
}
