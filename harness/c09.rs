//! C09 - printing a formula and parsing it back preserves its structure: operator trees of depth two (every pair of
//! binary operators in both nestings, unary minus and percent over and under a binary operator) over reference,
//! string, boolean and number leaves, printed in the internal stored form (`to_rc_format`) and in the display form
//! (`to_localized_string`, en) and parsed back with the real lexer + parser.
use super::rt::*;
use super::st::*;
use crate::expressions::lexer::LexerMode;
use crate::expressions::parser::stringify::{to_localized_string, to_rc_format};
use crate::expressions::parser::{Node, Parser};
use crate::expressions::token::{OpCompare, OpProduct, OpSum, OpUnary};
use crate::expressions::types::CellReferenceRC;
use std::collections::HashMap;

fn leaf(i: u8) -> Node {
    if i == 0 { Node::ReferenceKind { sheet_name: None, sheet_index: 0, absolute_row: false, absolute_column: false, row: 1, column: 1 } }
    else if i == 1 { Node::StringKind("x".to_string()) }
    else if i == 2 { Node::BooleanKind(true) }
    else { Node::NumberKind(2.0) }
}
/// 0 + 1 - 2 * 3 / 4 ^ 5 & 6 = 7 <
fn binop(k: u8, l: Node, r: Node) -> Node {
    let (left, right) = (Box::new(l), Box::new(r));
    if k == 0 { Node::OpSumKind { kind: OpSum::Add, left, right } }
    else if k == 1 { Node::OpSumKind { kind: OpSum::Minus, left, right } }
    else if k == 2 { Node::OpProductKind { kind: OpProduct::Times, left, right } }
    else if k == 3 { Node::OpProductKind { kind: OpProduct::Divide, left, right } }
    else if k == 4 { Node::OpPowerKind { left, right } }
    else if k == 5 { Node::OpConcatenateKind { left, right } }
    else if k == 6 { Node::CompareKind { kind: OpCompare::Equal, left, right } }
    else { Node::CompareKind { kind: OpCompare::LessThan, left, right } }
}

/// shape 0: (a op1 b) op2 c   1: a op2 (b op1 c)   2: -(a op1 b)   3: (a op1 b)%   4: (-a) op1 b   5: a op1 (b%)
fn any_tree() -> (Node, u8, u8, u8) {
    let shape = any_u8();
    let (k1, k2) = (any_u8(), any_u8());
    assume((shape < 6) & (k1 < 8) & (k2 < 8));
    let (a, b, c) = (leaf(0), leaf(3), leaf(0));
    let node = if shape == 0 { binop(k2, binop(k1, a, b), c) }
        else if shape == 1 { binop(k2, a, binop(k1, b, c)) }
        else if shape == 2 { assume(k2 == 0); Node::UnaryKind { kind: OpUnary::Minus, right: Box::new(binop(k1, a, b)) } }
        else if shape == 3 { assume(k2 == 0); Node::UnaryKind { kind: OpUnary::Percentage, right: Box::new(binop(k1, a, b)) } }
        else if shape == 4 { assume(k2 == 0); binop(k1, Node::UnaryKind { kind: OpUnary::Minus, right: Box::new(a) }, b) }
        else { assume(k2 == 0); binop(k1, a, Node::UnaryKind { kind: OpUnary::Percentage, right: Box::new(b) }) };
    (node, shape, k1, k2)
}

/// re-associations that change the tree but not the value (a+(b+c), a+(b-c), a&(b&c), -(a*b), -(a/b)): not demanded
fn benign(shape: u8, k1: u8, k2: u8) -> bool {
    (shape == 1 && ((k2 == 0 && (k1 == 0 || k1 == 1)) || (k2 == 5 && k1 == 5))) || (shape == 2 && (k1 == 2 || k1 == 3))
}
/// KF-C09-1: the printer omits the parentheses around an operand whose operator binds weaker than its parent:
/// `&` under + - * /, a comparison under & or as the right operand of a comparison, & or a comparison under unary
/// minus, and every binary operator under % (the probes of the property: =(1&2)+3, =1+(2&3), =(1&2)*3, =1&(2=3), =-(1<2), =(1+2)%)
fn known_missing_parentheses(shape: u8, k1: u8, k2: u8) -> bool {
    let cmp = |k: u8| k == 6 || k == 7;
    (shape == 0 && ((k1 == 5 && k2 <= 3) || (cmp(k1) && k2 == 5)))
        || (shape == 1 && ((k1 == 5 && k2 <= 3) || (cmp(k1) && (k2 == 5 || cmp(k2)))))
        || (shape == 2 && (k1 == 5 || cmp(k1)))
        || shape == 3
}

fn roundtrip(display: bool, id: &'static str) {
    let (node, shape, k1, k2) = any_tree();
    assume(!benign(shape, k1, k2));
    let locale = locale_with(".", ",");
    let ctx = CellReferenceRC { sheet: "Sheet1".to_string(), row: 5, column: 5 };
    let mut parser = Parser::new(vec!["Sheet1".to_string()], vec![], HashMap::new(), &locale, language_en());
    let text = if display { to_localized_string(&node, &ctx, &locale, language_en()) } else { to_rc_format(&node) };
    parser.set_lexer_mode(if display { LexerMode::A1 } else { LexerMode::R1C1 });
    let back = parser.parse(&text, &ctx);
    check_kf(id, back == node, "KF-C09-1", known_missing_parentheses(shape, k1, k2));
}
pub fn h_c09_stored_form() { roundtrip(false, "C09.stored_form.parses_back_to_the_same_tree"); reach("C09.stored_form"); }
pub fn h_c09_display_form() { roundtrip(true, "C09.display_form.parses_back_to_the_same_tree"); reach("C09.display_form"); }

// ---- C11: the parser itself never panics
fn parse_any(max: usize, mode: LexerMode) {
    let text = any_ascii_string(max);
    let locale = locale_with(".", ",");
    let ctx = CellReferenceRC { sheet: "Sheet1".to_string(), row: 5, column: 5 };
    let mut parser = Parser::new(vec!["Sheet1".to_string()], vec![], HashMap::new(), &locale, language_en());
    parser.set_lexer_mode(mode);
    let node = parser.parse(&text, &ctx);
    // a text that is no formula comes back as a parse-error node, not as a panic
    let is_error = match node { Node::ParseErrorKind { .. } => true, _ => false };
    check("C11.parser.empty_text_is_a_parse_error", (text.len() > 0) | is_error);
}
pub fn h_c11_parser_a1() { parse_any(3, LexerMode::A1); reach("C11.parser_a1"); }
pub fn ht_c11_parser_r1c1() { parse_any(3, LexerMode::R1C1); reach("C11.parser_r1c1"); }

// ---- C09 from the text side: a formula assembled from pieces is parsed, printed (display / stored form) and parsed
// again; the two trees must be equal.  Every tree here is parser-produced by construction.
const LEAVES: [&str; 12] = ["A1", "$B$2", "Sheet1!C$3", "Ghost!A1", "A1:B2", "$A:$B", "2:3", "1.5", "\"a\"\"b\"", "TRUE", "#N/A", "{1,2;3,4}"];
const OPS: [&str; 13] = ["+", "-", "*", "/", "^", "&", "=", "<", ">", "<=", ">=", "<>", ":"];

fn text_roundtrip(display: bool, id: &'static str) {
    let (l, o, r) = (any_usize_to(LEAVES.len() - 1), any_usize_to(OPS.len()), any_usize_to(LEAVES.len() - 1));
    // o == OPS.len(): a single leaf, optionally under unary minus / percent (chosen by r's parity)
    let text = if o == OPS.len() { if r % 3 == 0 { LEAVES[l].to_string() } else if r % 3 == 1 { format!("-{}", LEAVES[l]) } else { format!("{}%", LEAVES[l]) } }
               else { format!("{}{}{}", LEAVES[l], OPS[o], LEAVES[r]) };
    if o == OPS.len() { assume(r < 3); }
    let locale = locale_with(".", ",");
    let ctx = CellReferenceRC { sheet: "Sheet1".to_string(), row: 5, column: 5 };
    let mut parser = Parser::new(vec!["Sheet1".to_string()], vec![], HashMap::new(), &locale, language_en());
    let first = parser.parse(&text, &ctx);
    // the property speaks about formulas the parser accepts (`$B$2:TRUE`, `1.5:A1` ... are parse errors)
    let rejected = match first { Node::ParseErrorKind { .. } => true, _ => false };
    assume(!rejected);
    // `a:b:c`: the stored form re-associates reference:range into range:reference; the bounding box is the same
    assume(!((o == 12) & (r >= 4) & (r <= 6)));
    let printed = if display { to_localized_string(&first, &ctx, &locale, language_en()) } else { to_rc_format(&first) };
    parser.set_lexer_mode(if display { LexerMode::A1 } else { LexerMode::R1C1 });
    let second = parser.parse(&printed, &ctx);
    check(id, second == first);
}
pub fn h_c09_text_display_form() { text_roundtrip(true, "C09.text_display_form.second_parse_gives_the_same_tree"); reach("C09.text_display"); }
pub fn h_c09_text_stored_form() { text_roundtrip(false, "C09.text_stored_form.second_parse_gives_the_same_tree"); reach("C09.text_stored"); }

// ---- C09 with function calls (the function-name table is the real English one)
const FARGS: [&str; 6] = ["A1", "$B$2:C3", "Sheet1!C$3", "1.5", "\"x\"", "TRUE"];
const FOPS: [&str; 6] = ["+", "*", "^", "&", "=", "<>"];

fn function_text_roundtrip(display: bool, id: &'static str) {
    let (shape, l, o, r) = (any_u8(), any_usize_to(FARGS.len() - 1), any_usize_to(FOPS.len() - 1), any_usize_to(FARGS.len() - 1));
    assume(shape < 6);
    let (a, op, b) = (FARGS[l], FOPS[o], FARGS[r]);
    let text = if shape == 0 { format!("SUM({a},{b})") }
        else if shape == 1 { format!("IF({a}{op}{b},{a},{b})") }
        else if shape == 2 { format!("SUM({a}){op}{b}") }
        else if shape == 3 { format!("{a}{op}MAX({b},2)") }
        else if shape == 4 { format!("-SUM({a}{op}{b})") }
        else { format!("IF(AND({a},PI()>3),{b}%,NOT({a}))") };
    if shape == 0 || shape == 5 { assume(o == 0); }
    let locale = locale_with(".", ",");
    let ctx = CellReferenceRC { sheet: "Sheet1".to_string(), row: 5, column: 5 };
    let mut parser = Parser::new(vec!["Sheet1".to_string()], vec![], HashMap::new(), &locale, language_en());
    let first = parser.parse(&text, &ctx);
    let rejected = match first { Node::ParseErrorKind { .. } => true, _ => false };
    check("C09.functions.accepted", !rejected);
    let printed = if display { to_localized_string(&first, &ctx, &locale, language_en()) } else { to_rc_format(&first) };
    parser.set_lexer_mode(if display { LexerMode::A1 } else { LexerMode::R1C1 });
    let second = parser.parse(&printed, &ctx);
    check(id, second == first);
}
pub fn h_c09_functions_display_form() { function_text_roundtrip(true, "C09.functions_display_form.second_parse_gives_the_same_tree"); reach("C09.functions_display"); }
pub fn h_c09_functions_stored_form() { function_text_roundtrip(false, "C09.functions_stored_form.second_parse_gives_the_same_tree"); reach("C09.functions_stored"); }

/// the display form in the other languages and in a decimal-comma locale: typed in English, shown in de / es / fr / it
/// (solver chooses) with the en or the de locale, read back there: the same tree
pub fn h_c09_functions_other_languages() {
    let (shape, l, o, r) = (any_u8(), any_usize_to(FARGS.len() - 1), any_usize_to(FOPS.len() - 1), any_usize_to(FARGS.len() - 1));
    assume(shape < 6);
    let (a, op, b) = (FARGS[l], FOPS[o], FARGS[r]);
    let text = if shape == 0 { format!("SUM({a},{b})") }
        else if shape == 1 { format!("IF({a}{op}{b},{a},{b})") }
        else if shape == 2 { format!("SUM({a}){op}{b}") }
        else if shape == 3 { format!("{a}{op}MAX({b},2)") }
        else if shape == 4 { format!("-SUM({a}{op}{b})") }
        else { format!("IF(AND({a},PI()>3),{b}%,NOT({a}))") };
    if shape == 0 || shape == 5 { assume(o == 0); }
    // one language per path keeps the path count down: the language index is tied to the operator index
    let lang_code = if o % 4 == 0 { "de" } else if o % 4 == 1 { "es" } else if o % 4 == 2 { "fr" } else { "it" };
    let comma_locale = any_bool();
    let en = locale_with(".", ",");
    let other = if comma_locale { locale_with(",", ".") } else { locale_with(".", ",") };
    let lang = match crate::language::get_language(lang_code) { Ok(l) => l, Err(_) => { return; } };
    let ctx = CellReferenceRC { sheet: "Sheet1".to_string(), row: 5, column: 5 };
    let mut parser = Parser::new(vec!["Sheet1".to_string()], vec![], HashMap::new(), &en, language_en());
    let first = parser.parse(&text, &ctx);
    let rejected = match first { Node::ParseErrorKind { .. } => true, _ => false };
    check("C09.languages.accepted", !rejected);
    let printed = to_localized_string(&first, &ctx, &other, lang);
    let mut parser2 = Parser::new(vec!["Sheet1".to_string()], vec![], HashMap::new(), &other, lang);
    let second = parser2.parse(&printed, &ctx);
    check("C09.languages.second_parse_gives_the_same_tree", second == first);
    reach("C09.languages");
}

/// an immediately invoked LAMBDA: parameters and call arguments both use the argument separator of the locale
pub fn h_c09_lambda_call_in_locales() {
    let comma_locale = any_bool();
    let en = locale_with(".", ",");
    let other = if comma_locale { locale_with(",", ".") } else { locale_with(".", ",") };
    let ctx = CellReferenceRC { sheet: "Sheet1".to_string(), row: 5, column: 5 };
    let mut parser = Parser::new(vec!["Sheet1".to_string()], vec![], HashMap::new(), &en, language_en());
    let first = parser.parse("LAMBDA(x,y,x+y)(1.5,2)", &ctx);
    let rejected = match first { Node::ParseErrorKind { .. } => true, _ => false };
    check("C09.lambda_call.accepted", !rejected);
    let printed = to_localized_string(&first, &ctx, &other, language_en());
    let mut parser2 = Parser::new(vec!["Sheet1".to_string()], vec![], HashMap::new(), &other, language_en());
    let second = parser2.parse(&printed, &ctx);
    check("C09.lambda_call.second_parse_gives_the_same_tree", second == first);
    reach("C09.lambda_call");
}
