#!/bin/bash
# confirm.sh <PROP>: for each out/patch<i>.diff in /tmp/seed/<PROP>: suite green with patch; demo fails with patch; demo passes without
P=$1; WT=/tmp/seed/$P; cd $WT || exit 2
export CARGO_TARGET_DIR=$WT/target CARGO_NET_OFFLINE=true
J=${JOBS:-6}
res=$WT/out/confirm.txt; : > $res
for i in 1 2 3; do
  [ -f out/patch$i.diff ] || continue
  git checkout -q -- . ; git clean -fdq -e out -e target -e TASK.md
  git apply out/patch$i.diff || { echo "patch$i: DOES-NOT-APPLY" >> $res; continue; }
  cargo test --workspace --offline -j $J > out/suite$i.log 2>&1
  fails=$(grep -cE "^test .* FAILED|^test result: FAILED|error(\[|:)" out/suite$i.log)
  oks=$(grep -c "^test result: ok" out/suite$i.log)
  git apply out/demo$i.diff || { echo "patch$i: demo does not apply on patched tree" >> $res; continue; }
  # name of the demo test module = new file(s) in the demo diff
  mods=$(grep -E "^\+\+\+ b/.*\.rs" out/demo$i.diff | sed 's#+++ b/##' | grep -v "/mod.rs" | xargs -n1 basename | sed 's/\.rs$//' | tr '\n' ' ')
  pk=$(grep -E "^\+\+\+ b/" out/demo$i.diff | head -1 | sed 's#+++ b/##' | cut -d/ -f1); [ "$pk" = base ] && pkg=ironcalc_base || pkg=ironcalc
  : > out/demo_with$i.log
  for m in $mods; do cargo test -p $pkg --offline -j $J $m >> out/demo_with$i.log 2>&1; done
  wf=$(grep -cE "^test .* FAILED" out/demo_with$i.log)
  git checkout -q -- . ; git clean -fdq -e out -e target -e TASK.md
  git apply out/demo$i.diff
  : > out/demo_without$i.log
  for m in $mods; do cargo test -p $pkg --offline -j $J $m >> out/demo_without$i.log 2>&1; done
  wof=$(grep -cE "^test .* FAILED|error(\[|:)" out/demo_without$i.log)
  wop=$(grep -cE "^test .* ok$" out/demo_without$i.log)
  echo "patch$i: suite_ok_results=$oks suite_failures=$fails demo_mods=[$mods] demo_failed_with_patch=$wf demo_failures_without=$wof demo_passed_without=$wop" >> $res
  git checkout -q -- . ; git clean -fdq -e out -e target -e TASK.md
done
cat $res
