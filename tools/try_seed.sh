#!/bin/bash
# try_seed.sh <seed dir under /verif/seeded> <PROPERTY>... : run checks against a scratch copy of /repo with the seeded patch applied
SD=$1; shift
S=/var/tmp/seedtry-$$-$(basename $SD)
mkdir -p $S && rsync -a --exclude target --exclude .git /repo/ $S/ || exit 2
( cd $S && patch -p1 -s < /verif/seeded/$(basename $SD)/patch.diff ) || { echo "patch failed"; rm -rf $S; exit 2; }
rc=0
for P in "$@"; do
  VERIF_REPO=$S VERIF_EVIDENCE_DIR=/var/tmp/seedtry-ev-$$ /verif/check $P > $S/check-$P.log 2>&1; r=$?
  echo "== $(basename $SD) vs $P: exit $r"; grep -E "^VIOLATION|failing check|^INCONCLUSIVE|^HELD|^KNOWN" $S/check-$P.log | cut -c1-300
done
rm -rf $S /var/tmp/seedtry-ev-$$
