import sys, os, json, re, shutil
P = sys.argv[1]
wt = '/tmp/seed/' + P
conf = {}
for l in open(wt + '/out/confirm.txt'):
    m = re.match(r'patch(\d): (.*)', l)
    if m:
        conf[int(m.group(1))] = m.group(2).strip()
for i, c in conf.items():
    kv = dict(re.findall(r'(\w+)=(\[[^\]]*\]|\S+)', c))
    ok = kv.get('suite_failures') == '0' and int(kv.get('suite_ok_results', '0')) >= 10 and int(kv.get('demo_failed_with_patch', '0')) > 0 \
        and kv.get('demo_failures_without') == '0' and int(kv.get('demo_passed_without', '0')) > 0
    d = '/verif/seeded/%s-%d' % (P, i)
    if not ok:
        print('NOT CONFIRMED', P, i, c)
        continue
    os.makedirs(d, exist_ok=True)
    shutil.copy('%s/out/patch%d.diff' % (wt, i), d + '/patch.diff')
    shutil.copy('%s/out/demo%d.diff' % (wt, i), d + '/demo.diff')
    notes = open('%s/out/notes%d.md' % (wt, i)).read()
    open(d + '/notes.md', 'w').write(notes)
    files = re.findall(r'^\+\+\+ b/(\S+)', open(d + '/patch.diff').read(), re.M)
    meta = {'property': P, 'seed': '%s-%d' % (P, i), 'author': 'independent sub-agent given only the property text and a scratch worktree',
            'files_touched': files,
            'needs_to_manifest': 'see notes.md (section on trigger)',
            'confirmed_by_me': {'command': '/tmp/seed/bin/confirm.sh %s (git apply patch; cargo test --workspace --offline; apply demo; cargo test <demo module> with and without the patch)' % P,
                                'result': c},
            'detected_by': None}
    json.dump(meta, open(d + '/meta.json', 'w'), indent=1)
    print('kept', d)
