#!/usr/bin/env python3
"""seed_table.py            : regenerate the table of DESIGN.md section 10.5 from seeded/*/meta.json
   seed_table.py set <seed> <status> <detail>  : record the outcome of tools/try_seed.sh in the seed's meta.json"""
import sys, os, json, glob, re
ROOT = os.path.dirname(os.path.dirname(os.path.abspath(__file__)))
def metas():
    out = []
    for f in sorted(glob.glob(ROOT + '/seeded/*/meta.json')):
        out.append((f, json.load(open(f))))
    return out
if len(sys.argv) > 1 and sys.argv[1] == 'set':
    seed, status, detail = sys.argv[2], sys.argv[3], sys.argv[4]
    f = ROOT + '/seeded/%s/meta.json' % seed
    m = json.load(open(f))
    m['detected_by'] = {'status': status, 'detail': detail,
                        'how': 'tools/try_seed.sh %s <property>  (scratch copy of /repo with patch.diff applied, quick tier)' % seed}
    json.dump(m, open(f, 'w'), indent=1)
    sys.exit(0)
rows = []
cnt = {}
for f, m in metas():
    d = m.get('detected_by') or {'status': 'not-run', 'detail': ''}
    cnt[d['status']] = cnt.get(d['status'], 0) + 1
    rows.append('| %s | %s | %s |' % (m['seed'], d['status'], d['detail']))
table = '| seed | status | check ids that report it / why it is missed |\n|---|---|---|\n' + '\n'.join(rows) + '\n'
p = ROOT + '/DESIGN.md'
s = open(p).read()
i = s.index('| seed | status | check ids that report it / why it is missed |')
j = s.find('\n\n', i)
s = s[:i] + table + (s[j + 1:] if j >= 0 else '')
s = re.sub(r'\d+ seeds: [^.]*\.', '%d seeds: %s.' % (len(rows), ', '.join('%d %s' % (v, k) for k, v in sorted(cnt.items()))), s, count=1)
open(p, 'w').write(s)
print(len(rows), cnt)
