"""Overlay the harness onto a scratch copy of /repo/base, dump MIR (nightly) and build the native
replay binary (stable).  Results are cached by content hash of sources + harness under /verif/.cache/out/<hash>."""
import os, sys, re, hashlib, subprocess, shutil, tempfile, time, fcntl, glob, json

VERIF = os.path.dirname(os.path.dirname(os.path.abspath(__file__)))
CACHE = os.path.join(VERIF, '.cache')
REPO = os.environ.get('VERIF_REPO', '/repo')
HDIR = os.environ.get('VERIF_HARNESS_DIR') or os.path.join(VERIF, 'harness')   # development: a scratch harness dir


def _hash_tree(paths):
    h = hashlib.sha256()
    for root in paths:
        if os.path.isfile(root):
            files = [root]
        else:
            files = []
            for d, dirs, fs in os.walk(root):
                dirs[:] = sorted(x for x in dirs if x not in ('target', '.git', '__pycache__'))
                for f in sorted(fs):
                    files.append(os.path.join(d, f))
        for f in files:
            h.update(f.encode())
            with open(f, 'rb') as fh:
                h.update(fh.read())
    return h.hexdigest()[:20]


REPLAY_MAIN = r'''
use ironcalc_base::verif;
use std::io::{BufRead, Write};
fn main() {
    let args: Vec<String> = std::env::args().collect();
    let path = &args[1];
    std::panic::set_hook(Box::new(|_| {}));
    let f = std::fs::File::open(path).expect("cases file");
    let out = std::io::stdout();
    let mut out = out.lock();
    let mut name = String::new();
    let mut inputs: Vec<(String, i128)> = vec![];
    let mut idx = 0usize;
    for line in std::io::BufReader::new(f).lines() {
        let line = line.unwrap();
        let mut it = line.split(' ');
        match it.next() {
            Some("case") => { name = it.next().unwrap_or("").to_string(); inputs.clear(); }
            Some("in") => { let k = it.next().unwrap().to_string(); let v: i128 = it.next().unwrap().parse().unwrap(); inputs.push((k, v)); }
            Some("end") => {
                writeln!(out, "CASE {} {}", idx, name).unwrap();
                match verif::registry::lookup(&name) {
                    Some(f) => {
                        let (trace, status) = verif::rt::run_case(f, std::mem::take(&mut inputs));
                        for t in trace { writeln!(out, "{}", t).unwrap(); }
                        writeln!(out, "END {}", status).unwrap();
                    }
                    None => { writeln!(out, "END unknown-harness").unwrap(); }
                }
                idx += 1;
            }
            _ => {}
        }
    }
}
'''


def harness_modules(hdir):
    return sorted(os.path.basename(f)[:-3] for f in glob.glob(os.path.join(hdir, '*.rs')))


def harness_parent(hdir, m):
    """`//@parent actions` in the first lines: the module is mounted as a child of crate::actions
    (so that it can reach that module's private functions); default: child of crate::verif"""
    src = open(os.path.join(hdir, m + '.rs')).read()
    mm = re.search(r'^//@parent\s+([\w:]+)\s*$', src, re.M)
    return mm.group(1) if mm else None


def harness_fns(hdir):
    """[(module, fn name, rust path)] for every `pub fn h_*()` / `pub fn ht_*()`"""
    out = []
    for m in harness_modules(hdir):
        if m in ('rt', 'st', 'registry', 'mod'):
            continue
        src = open(os.path.join(hdir, m + '.rs')).read()
        par = harness_parent(hdir, m)
        for fn in re.findall(r'^pub fn (ht?_\w+)\s*\(\s*\)', src, re.M):
            path = ('crate::verif_%s::%s' % (m, fn)) if par else ('super::%s::%s' % (m, fn))
            out.append((m, fn, path))
    return out


def gen_registry(hdir):
    arms = []
    for m, fn, path in harness_fns(hdir):
        arms.append('        "%s" => Some(%s as fn()),' % (fn, path))
    return ('#![allow(missing_docs)]\n/// harness lookup (generated)\npub fn lookup(name: &str) -> Option<fn()> {\n'
            '    match name {\n%s\n        _ => None,\n    }\n}\n' % '\n'.join(arms))


def overlay(scratch, hdir, with_replay_main):
    base = os.path.join(scratch, 'base')
    subprocess.check_call(['rsync', '-a', '--delete', '--exclude', 'target', os.path.join(REPO, 'base') + '/', base + '/'])
    shutil.copy(os.path.join(REPO, 'Cargo.lock'), os.path.join(base, 'Cargo.lock'))
    with open(os.path.join(base, 'Cargo.toml'), 'a') as f:
        f.write('\n[workspace]\n')
    vdir = os.path.join(base, 'src', 'verif')
    os.makedirs(vdir, exist_ok=True)
    mods = harness_modules(hdir)
    top = []
    for m in mods:
        shutil.copy(os.path.join(hdir, m + '.rs'), os.path.join(vdir, m + '.rs'))
        par = harness_parent(hdir, m)
        if par is None:
            top.append(m)
            continue
        # mount as a child module of crate::<par> (scratch copy only)
        rel = par.replace('::', '/')
        cands = [os.path.join(base, 'src', rel + '.rs'), os.path.join(base, 'src', rel, 'mod.rs')]
        host = [c for c in cands if os.path.exists(c)]
        if not host:
            raise RuntimeError('harness %s: parent module %s not found in this tree' % (m, par))
        host = host[0]
        updir = os.path.relpath(os.path.join(vdir, m + '.rs'), os.path.dirname(host))
        with open(host, 'a') as f:
            f.write('\n#[cfg(any(verif_mir, verif_replay))]\n#[allow(missing_docs, dead_code, unused_imports, unused_variables, unused_mut, clippy::all)]\n'
                    '#[path = "%s"]\npub mod verif_%s;\n' % (updir, m))
        # re-export the mounted module up to the crate root (ancestors may be private modules)
        segs = par.split('::')
        for depth in range(len(segs) - 1, -1, -1):
            if depth == 0:
                anc = os.path.join(base, 'src', 'lib.rs')
            else:
                rel2 = '/'.join(segs[:depth])
                c2 = [os.path.join(base, 'src', rel2 + '.rs'), os.path.join(base, 'src', rel2, 'mod.rs')]
                anc = [c for c in c2 if os.path.exists(c)][0]
            with open(anc, 'a') as f:
                f.write('\n#[cfg(any(verif_mir, verif_replay))]\n#[allow(unused_imports)]\npub use self::%s::verif_%s;\n' % (segs[depth], m))
    mods = top
    with open(os.path.join(vdir, 'registry.rs'), 'w') as f:
        f.write(gen_registry(hdir))
    with open(os.path.join(vdir, 'mod.rs'), 'w') as f:
        f.write('#![allow(missing_docs, dead_code, unused_imports, unused_variables, unused_mut, clippy::all)]\n')
        for m in mods + ['registry']:
            f.write('pub mod %s;\n' % m)
    with open(os.path.join(base, 'src', 'lib.rs'), 'a') as f:
        f.write('\n#[cfg(any(verif_mir, verif_replay))]\n#[allow(missing_docs)]\npub mod verif;\n')
    if with_replay_main:
        os.makedirs(os.path.join(base, 'src', 'bin'), exist_ok=True)
        with open(os.path.join(base, 'src', 'bin', 'verif_replay.rs'), 'w') as f:
            f.write(REPLAY_MAIN)
    return base


def _run(cmd, cwd, env, log):
    t = time.time()
    with open(log, 'w') as lf:
        p = subprocess.run(cmd, cwd=cwd, env=env, stdout=lf, stderr=subprocess.STDOUT)
    return p.returncode, time.time() - t


def prepare(hdir=None, want_release=False, verbose=True, extra_mir_pkgs=()):
    """returns dict(mir, replay_dev, replay_release?, hash, base_src, times) or raises RuntimeError"""
    hdir = hdir or HDIR
    os.makedirs(CACHE, exist_ok=True)
    key = _hash_tree([os.path.join(REPO, 'base', 'src'), os.path.join(REPO, 'base', 'Cargo.toml'),
                      os.path.join(REPO, 'Cargo.lock'), hdir, os.path.abspath(__file__)])
    out = os.path.join(CACHE, 'out', key)
    res = {'hash': key, 'mir': os.path.join(out, 'base.mir'), 'replay_dev': os.path.join(out, 'verif_replay_dev'),
           'replay_release': os.path.join(out, 'verif_replay_release'), 'src': os.path.join(out, 'src'),
           'out': out, 'times': {}}
    os.environ['MIRSYM_OUT'] = out
    lockf = open(os.path.join(CACHE, 'build.lock'), 'w')
    fcntl.flock(lockf, fcntl.LOCK_EX)
    try:
        need_mir = not os.path.exists(res['mir'])
        need_dev = not os.path.exists(res['replay_dev'])
        need_rel = want_release and not os.path.exists(res['replay_release'])
        need_chrono = bool(extra_mir_pkgs) and any(not os.path.exists(os.path.join(out, p + '.mir')) for p in extra_mir_pkgs)
        if not (need_mir or need_dev or need_rel or need_chrono):
            return res
        os.makedirs(out, exist_ok=True)
        scratch = tempfile.mkdtemp(prefix='icverif-', dir=os.environ.get('VERIF_SCRATCH', '/var/tmp'))
        try:
            base = overlay(scratch, hdir, True)
            env = dict(os.environ)
            env['CARGO_NET_OFFLINE'] = 'true'
            env.pop('RUSTFLAGS', None)
            if need_mir or need_chrono:
                env2 = dict(env)
                env2['CARGO_TARGET_DIR'] = os.path.join(CACHE, 'target-mir')
                if need_mir:
                    cmd = ['cargo', '+nightly', 'rustc', '--offline', '--lib', '--', '--cfg', 'verif_mir',
                           '-Zunpretty=mir', '-C', 'debug-assertions=off', '-C', 'overflow-checks=on', '-Awarnings']
                    log = os.path.join(out, 'mir.log')
                    t = time.time()
                    with open(res['mir'] + '.tmp', 'w') as mf, open(log, 'w') as lf:
                        p = subprocess.run(cmd, cwd=base, env=env2, stdout=mf, stderr=lf)
                    res['times']['mir'] = time.time() - t
                    if p.returncode != 0 or os.path.getsize(res['mir'] + '.tmp') < 1000:
                        raise RuntimeError('MIR dump failed (harness does not compile against this tree?)\n' +
                                           open(log).read()[-3000:])
                    os.rename(res['mir'] + '.tmp', res['mir'])
                    # keep the sources the spans refer to (impl headers are read from them)
                    shutil.rmtree(res['src'], ignore_errors=True)
                    shutil.copytree(os.path.join(base, 'src'), os.path.join(res['src'], 'src'))
                for pkg in extra_mir_pkgs:
                    pm = os.path.join(out, pkg + '.mir')
                    if os.path.exists(pm):
                        continue
                    cmd = ['cargo', '+nightly', 'rustc', '--offline', '-p', pkg, '--lib', '--',
                           '-Zunpretty=mir', '-C', 'debug-assertions=off', '-C', 'overflow-checks=on', '-Awarnings']
                    t = time.time()
                    with open(pm + '.tmp', 'w') as mf, open(os.path.join(out, pkg + '.mir.log'), 'w') as lf:
                        p = subprocess.run(cmd, cwd=base, env=env2, stdout=mf, stderr=lf)
                    res['times']['mir_' + pkg] = time.time() - t
                    if p.returncode != 0:
                        raise RuntimeError('MIR dump of %s failed' % pkg)
                    os.rename(pm + '.tmp', pm)
            if need_dev or need_rel:
                env3 = dict(env)
                env3['CARGO_TARGET_DIR'] = os.path.join(CACHE, 'target-replay')
                env3['RUSTFLAGS'] = '--cfg verif_replay -Awarnings'
                for prof, need, dst in (('dev', need_dev, res['replay_dev']), ('release', need_rel, res['replay_release'])):
                    if not need:
                        continue
                    cmd = ['cargo', 'build', '--offline', '--bin', 'verif_replay'] + (['--release'] if prof == 'release' else [])
                    rc, dt = _run(cmd, base, env3, os.path.join(out, 'replay_%s.log' % prof))
                    res['times']['replay_' + prof] = dt
                    if rc != 0:
                        raise RuntimeError('replay build (%s) failed\n' % prof +
                                           open(os.path.join(out, 'replay_%s.log' % prof)).read()[-3000:])
                    binp = os.path.join(env3['CARGO_TARGET_DIR'], 'debug' if prof == 'dev' else 'release', 'verif_replay')
                    shutil.copy(binp, dst)
        finally:
            shutil.rmtree(scratch, ignore_errors=True)
        # prune old outputs (keep 3 newest)
        outs = sorted(glob.glob(os.path.join(CACHE, 'out', '*')), key=os.path.getmtime)
        for o in outs[:-3]:
            if o != out:
                shutil.rmtree(o, ignore_errors=True)
        return res
    finally:
        fcntl.flock(lockf, fcntl.LOCK_UN)
        lockf.close()


if __name__ == '__main__':
    r = prepare(want_release='--release' in sys.argv)
    print(json.dumps(r, indent=1))
