"""std models, part 4: HashMap / HashSet / BTreeMap as association lists, numeric helpers."""
import math
import z3
from .mirparse import Unsupported, INT_TYPES
from .values import *
from . import ops
from .ops import is_sym, bool_and, bool_or, bool_not
from .mcore import (model, MODELS, deref, deref1, none, some, ok, err, value_eq, call_closure, scalar_sort_info)
from .miter import MapEntryIter, ListIter, SETMARK, panic, compare_values


def map_find(eng, m, key):
    """entry ([k,v] list) whose key equals `key`, or None; forks on symbolic key comparisons"""
    key = deref1(key) if type(key) is Ref else key
    conds = []
    for e in m.f:
        conds.append(value_eq(eng, e[0], key))
    # fast path: all concrete
    for i, c in enumerate(conds):
        if c is True:
            return m.f[i]
    sym = [(i, c) for i, c in enumerate(conds) if c is not False]
    if not sym:
        return None
    cs = [c for _, c in sym]
    cs.append(z3.Not(z3.Or(cs)) if len(cs) > 1 else z3.Not(cs[0]))
    k = eng.choose(cs)
    if k == len(sym):
        return None
    return m.f[sym[k][0]]


def map_insert(eng, m, key, val):
    e = map_find(eng, m, key)
    if e is not None:
        old = e[1]
        e[1] = val
        return some(old)
    m.f.append([key, val])
    if m.ordered is True:
        sort_map(eng, m)
    return none()


def sort_map(eng, m):
    class _C:
        text = ''
        impl_ty = None
        self_ty = None
        generics = getattr(m, 'keyty', None) and [m.keyty] or []
    from .miter import sort_list
    try:
        m.f[:] = sort_list(eng, m.f, lambda x, y: compare_values(eng, _C, x[0], y[0]) < 0)
    except Unsupported:
        raise


def _new(ordered):
    def f(eng, ci, a, dt):
        return MapV([], ordered)
    return f


for _t in ('HashMap', 'HashSet'):
    for _m in ('new', 'with_capacity', 'default', 'with_hasher', 'with_capacity_and_hasher'):
        MODELS['%s::%s' % (_t, _m)] = _new(False)
for _t in ('BTreeMap', 'BTreeSet'):
    MODELS['%s::new' % _t] = _new(True)


@model('HashMap::len', 'HashSet::len', 'BTreeMap::len', 'BTreeSet::len')
def _(eng, ci, a, dt):
    return len(deref(a[0]).f)


@model('HashMap::is_empty', 'HashSet::is_empty', 'BTreeMap::is_empty', 'BTreeSet::is_empty')
def _(eng, ci, a, dt):
    return len(deref(a[0]).f) == 0


@model('HashMap::clear', 'HashSet::clear', 'BTreeMap::clear')
def _(eng, ci, a, dt):
    del deref(a[0]).f[:]
    return UNIT


@model('HashMap::get', 'HashMap::get_mut', 'BTreeMap::get', 'BTreeMap::get_mut')
def _(eng, ci, a, dt):
    e = map_find(eng, deref(a[0]), a[1])
    return none() if e is None else some(Ref(e, 1))


@model('HashSet::get')
def _(eng, ci, a, dt):
    e = map_find(eng, deref(a[0]), a[1])
    return none() if e is None else some(Ref(e, 0))


@model('HashMap::get_key_value')
def _(eng, ci, a, dt):
    e = map_find(eng, deref(a[0]), a[1])
    return none() if e is None else some(Agg([Ref(e, 0), Ref(e, 1)], 'tuple'))


@model('HashMap::contains_key', 'HashSet::contains', 'BTreeMap::contains_key', 'BTreeSet::contains')
def _(eng, ci, a, dt):
    return map_find(eng, deref(a[0]), a[1]) is not None


@model('HashMap::insert', 'BTreeMap::insert')
def _(eng, ci, a, dt):
    return map_insert(eng, deref(a[0]), a[1], a[2])


@model('HashSet::insert', 'BTreeSet::insert')
def _(eng, ci, a, dt):
    m = deref(a[0])
    e = map_find(eng, m, a[1])
    if e is not None:
        return False
    m.f.append([a[1], SETMARK])
    if m.ordered is True:
        sort_map(eng, m)
    return True


@model('HashMap::remove', 'BTreeMap::remove')
def _(eng, ci, a, dt):
    m = deref(a[0])
    e = map_find(eng, m, a[1])
    if e is None:
        return none()
    m.f.remove(e)
    return some(e[1])


@model('HashMap::remove_entry')
def _(eng, ci, a, dt):
    m = deref(a[0])
    e = map_find(eng, m, a[1])
    if e is None:
        return none()
    m.f.remove(e)
    return some(Agg([e[0], e[1]], 'tuple'))


@model('HashSet::remove', 'BTreeSet::remove')
def _(eng, ci, a, dt):
    m = deref(a[0])
    e = map_find(eng, m, a[1])
    if e is None:
        return False
    m.f.remove(e)
    return True


@model('HashMap::iter', 'HashMap::iter_mut', 'BTreeMap::iter', 'BTreeMap::iter_mut')
def _(eng, ci, a, dt):
    return MapEntryIter(deref(a[0]).f, 'pairs')


@model('HashMap::keys', 'BTreeMap::keys', 'HashSet::iter', 'BTreeSet::iter')
def _(eng, ci, a, dt):
    return MapEntryIter(deref(a[0]).f, 'keys')


@model('HashMap::values', 'HashMap::values_mut', 'BTreeMap::values', 'BTreeMap::values_mut')
def _(eng, ci, a, dt):
    return MapEntryIter(deref(a[0]).f, 'values')


@model('HashMap::into_keys', 'BTreeMap::into_keys')
def _(eng, ci, a, dt):
    return MapEntryIter(a[0].f, 'owned_keys')


@model('HashMap::into_values', 'BTreeMap::into_values')
def _(eng, ci, a, dt):
    return MapEntryIter(a[0].f, 'owned_values')


@model('HashMap::drain')
def _(eng, ci, a, dt):
    m = deref(a[0])
    it = MapEntryIter(list(m.f), 'owned')
    m.f = []
    return it


@model('HashMap::retain', 'BTreeMap::retain')
def _(eng, ci, a, dt):
    m = deref(a[0])
    keep = []
    for e in m.f:
        if eng.truth(call_closure(eng, a[1], [Ref(e, 0), Ref(e, 1)])):
            keep.append(e)
    m.f[:] = keep
    return UNIT


@model('HashSet::retain')
def _(eng, ci, a, dt):
    m = deref(a[0])
    keep = []
    for e in m.f:
        if eng.truth(call_closure(eng, a[1], [Ref(e, 0)])):
            keep.append(e)
    m.f[:] = keep
    return UNIT


class EntryV:
    def __init__(self, m, key, e):
        self.m, self.key, self.e = m, key, e

    def clone(self):
        return self


@model('HashMap::entry', 'BTreeMap::entry')
def _(eng, ci, a, dt):
    m = deref(a[0])
    return EntryV(m, a[1], map_find(eng, m, a[1]))


def _entry_insert(eng, en, v):
    if en.e is None:
        en.e = [en.key, v]
        en.m.f.append(en.e)
        if en.m.ordered is True:
            sort_map(eng, en.m)
    return Ref(en.e, 1)


@model('Entry::or_insert')
def _(eng, ci, a, dt):
    en = a[0]
    if en.e is not None:
        return Ref(en.e, 1)
    return _entry_insert(eng, en, a[1])


@model('Entry::or_insert_with')
def _(eng, ci, a, dt):
    en = a[0]
    if en.e is not None:
        return Ref(en.e, 1)
    return _entry_insert(eng, en, call_closure(eng, a[1], []))


@model('Entry::or_default')
def _(eng, ci, a, dt):
    en = a[0]
    if en.e is not None:
        return Ref(en.e, 1)
    from .mcore import default_for_type
    from .interp import deref_type
    return _entry_insert(eng, en, default_for_type(eng, deref_type(dt) if dt else None))


@model('Entry::and_modify')
def _(eng, ci, a, dt):
    en = a[0]
    if en.e is not None:
        call_closure(eng, a[1], [Ref(en.e, 1)])
    return en


@model('Entry::key')
def _(eng, ci, a, dt):
    en = deref1(a[0])
    return Ref([en.key], 0)


@model('HashSet::union', 'HashSet::intersection', 'HashSet::difference', 'HashSet::is_subset')
def _(eng, ci, a, dt):
    x, y = deref(a[0]), deref(a[1])
    if ci.method == 'is_subset':
        for e in x.f:
            if map_find(eng, y, e[0]) is None:
                return False
        return True
    out = []
    if ci.method == 'union':
        out = [Ref(e, 0) for e in x.f]
        for e in y.f:
            if map_find(eng, x, e[0]) is None:
                out.append(Ref(e, 0))
    elif ci.method == 'intersection':
        out = [Ref(e, 0) for e in x.f if map_find(eng, y, e[0]) is not None]
    else:
        out = [Ref(e, 0) for e in x.f if map_find(eng, y, e[0]) is None]
    return ListIter(out)


@model('BTreeMap::first_key_value', 'BTreeMap::last_key_value')
def _(eng, ci, a, dt):
    m = deref(a[0])
    if not m.f:
        return none()
    e = m.f[0] if ci.method.startswith('first') else m.f[-1]
    return some(Agg([Ref(e, 0), Ref(e, 1)], 'tuple'))


@model('BTreeMap::range', 'BTreeSet::range')
def _(eng, ci, a, dt):
    raise Unsupported('BTreeMap::range')


# ----------------------------------------------------------------------------- integer / float methods

def _ity(ci):
    from .interp import strip_ref
    for c in ([ci.impl_ty] if ci.impl_ty else []) + ([ci.self_ty] if ci.self_ty else []):
        c = strip_ref(c)
        if c in INT_TYPES:
            return INT_TYPES[c]
    k = ci.key.split('::')[0]
    if k in INT_TYPES:
        return INT_TYPES[k]
    raise Unsupported('int type of ' + ci.text)


def _reg_int(name):
    def deco(f):
        for t in INT_TYPES:
            if t != 'char':
                MODELS['%s::%s' % (t, name)] = f
        return f
    return deco


@_reg_int('abs')
def _(eng, ci, a, dt):
    w, s = _ity(ci)
    x = a[0]
    if not is_sym(x):
        if x == -(1 << (w - 1)):
            panic(eng, 'attempt to negate with overflow', 'overflow')
        return abs(x)
    if eng.truth(x == z3.BitVecVal(1 << (w - 1), w)):
        panic(eng, 'attempt to negate with overflow', 'overflow')
    return z3.If(x < 0, -x, x)


@_reg_int('unsigned_abs')
def _(eng, ci, a, dt):
    x = a[0]
    if not is_sym(x):
        return abs(x)
    return z3.If(x < 0, -x, x)


@_reg_int('wrapping_abs')
def _(eng, ci, a, dt):
    w, s = _ity(ci)
    x = a[0]
    if not is_sym(x):
        return ops.norm_int(abs(x), w, s)
    return z3.If(x < 0, -x, x)


@_reg_int('signum')
def _(eng, ci, a, dt):
    w, s = _ity(ci)
    x = a[0]
    if not is_sym(x):
        return (x > 0) - (x < 0)
    return z3.If(x > 0, z3.BitVecVal(1, w), z3.If(x < 0, z3.BitVecVal(-1, w), z3.BitVecVal(0, w)))


@_reg_int('pow')
def _(eng, ci, a, dt):
    w, s = _ity(ci)
    e = eng.concretize(a[1], range(0, 40), 'pow exponent')
    acc = 1
    for _ in range(e):
        r = ops.int_binop('MulWithOverflow', acc, a[0], w, s)
        if eng.truth(r.f[1]):
            panic(eng, 'attempt to multiply with overflow', 'overflow')
        acc = r.f[0]
    return acc


def _checked(opname):
    def f(eng, ci, a, dt):
        w, s = _ity(ci)
        x, y = a
        if opname in ('Div', 'Rem'):
            if eng.truth(ops.int_binop('Eq', y, 0, w, s)):
                return none()
            if s and eng.truth(bool_and(ops.int_binop('Eq', x, -(1 << (w - 1)), w, s), ops.int_binop('Eq', y, -1, w, s))):
                return none()
            return some(ops.int_binop(opname, x, y, w, s))
        r = ops.int_binop(opname + 'WithOverflow', x, y, w, s)
        if eng.truth(r.f[1]):
            return none()
        return some(r.f[0])
    return f


for _n, _o in (('checked_add', 'Add'), ('checked_sub', 'Sub'), ('checked_mul', 'Mul'), ('checked_div', 'Div'),
               ('checked_rem', 'Rem')):
    _reg_int(_n)(_checked(_o))


def _wrapping(opname):
    def f(eng, ci, a, dt):
        w, s = _ity(ci)
        return ops.int_binop(opname, a[0], a[1], w, s)
    return f


for _n, _o in (('wrapping_add', 'Add'), ('wrapping_sub', 'Sub'), ('wrapping_mul', 'Mul')):
    _reg_int(_n)(_wrapping(_o))


def _overflowing(opname):
    def f(eng, ci, a, dt):
        w, s = _ity(ci)
        r = ops.int_binop(opname + 'WithOverflow', a[0], a[1], w, s)
        return Agg([r.f[0], r.f[1]], 'tuple')
    return f


for _n, _o in (('overflowing_add', 'Add'), ('overflowing_sub', 'Sub'), ('overflowing_mul', 'Mul')):
    _reg_int(_n)(_overflowing(_o))


def _saturating(opname):
    def f(eng, ci, a, dt):
        w, s = _ity(ci)
        r = ops.int_binop(opname + 'WithOverflow', a[0], a[1], w, s)
        if not eng.truth(r.f[1]):
            return r.f[0]
        lo = -(1 << (w - 1)) if s else 0
        hi = (1 << (w - 1)) - 1 if s else (1 << w) - 1
        if not s:
            return hi if opname in ('Add', 'Mul') else lo
        if opname == 'Add':
            neg = eng.truth(ops.int_binop('Lt', a[1], 0, w, s))
            return lo if neg else hi
        if opname == 'Sub':
            neg = eng.truth(ops.int_binop('Lt', a[1], 0, w, s))
            return hi if neg else lo
        neg = eng.truth(ops.bool_binop('Ne', ops.int_binop('Lt', a[0], 0, w, s), ops.int_binop('Lt', a[1], 0, w, s)))
        return lo if neg else hi
    return f


for _n, _o in (('saturating_add', 'Add'), ('saturating_sub', 'Sub'), ('saturating_mul', 'Mul')):
    _reg_int(_n)(_saturating(_o))


@_reg_int('rem_euclid')
def _(eng, ci, a, dt):
    w, s = _ity(ci)
    x, y = a
    if eng.truth(ops.int_binop('Eq', y, 0, w, s)):
        panic(eng, 'attempt to calculate the remainder with a divisor of zero', 'divzero')
    if s and eng.truth(bool_and(ops.int_binop('Eq', x, -(1 << (w - 1)), w, s), ops.int_binop('Eq', y, -1, w, s))):
        panic(eng, 'attempt to calculate the remainder with overflow', 'overflow')
    r = ops.int_binop('Rem', x, y, w, s)
    if not s:
        return r
    if not is_sym(r) and not is_sym(y):
        return r + abs(y) if r < 0 else r
    r, yy = ops.to_bv(r, w), ops.to_bv(y, w)
    return z3.If(r < 0, z3.If(yy < 0, r - yy, r + yy), r)


@_reg_int('div_euclid')
def _(eng, ci, a, dt):
    w, s = _ity(ci)
    x, y = a
    if eng.truth(ops.int_binop('Eq', y, 0, w, s)):
        panic(eng, 'attempt to divide by zero', 'divzero')
    if s and eng.truth(bool_and(ops.int_binop('Eq', x, -(1 << (w - 1)), w, s), ops.int_binop('Eq', y, -1, w, s))):
        panic(eng, 'attempt to divide with overflow', 'overflow')
    q = ops.int_binop('Div', x, y, w, s)
    if not s:
        return q
    r = ops.int_binop('Rem', x, y, w, s)
    if not is_sym(q) and not is_sym(r) and not is_sym(y):
        if r < 0:
            return q - 1 if y > 0 else q + 1
        return q
    q, r, yy = ops.to_bv(q, w), ops.to_bv(r, w), ops.to_bv(y, w)
    return z3.If(r < 0, z3.If(yy > 0, q - 1, q + 1), q)


@_reg_int('min')
def _(eng, ci, a, dt):
    w, s = _ity(ci)
    lt = ops.int_binop('Lt', a[1], a[0], w, s)
    return ops.bool_ite(lt, a[1], a[0]) if is_sym(lt) else (a[1] if lt else a[0])


@_reg_int('max')
def _(eng, ci, a, dt):
    w, s = _ity(ci)
    lt = ops.int_binop('Lt', a[1], a[0], w, s)
    return ops.bool_ite(lt, a[0], a[1]) if is_sym(lt) else (a[0] if lt else a[1])


@_reg_int('is_power_of_two')
def _(eng, ci, a, dt):
    x = a[0]
    if not is_sym(x):
        return x > 0 and (x & (x - 1)) == 0
    return z3.And(x != 0, (x & (x - 1)) == 0)


@_reg_int('count_ones')
def _(eng, ci, a, dt):
    if is_sym(a[0]):
        raise Unsupported('count_ones symbolic')
    w, s = _ity(ci)
    return bin(a[0] & ((1 << w) - 1)).count('1')


@_reg_int('to_string')
def _(eng, ci, a, dt):
    from .mstr import int_dec_bytes
    w, s = _ity(ci)
    return StrV(int_dec_bytes(eng, deref1(a[0]), w, s))


@_reg_int('from_str_radix')
def _(eng, ci, a, dt):
    from .mstr import parse_int_bytes
    from .mcore import str_bytes, concrete_bytes
    w, s = _ity(ci)
    if a[1] == 10:
        return parse_int_bytes(eng, str_bytes(a[0]), w, s)
    cb = concrete_bytes(str_bytes(a[0]))
    if cb is None:
        raise Unsupported('from_str_radix symbolic')
    try:
        v = int(cb.decode(), a[1])
    except ValueError:
        return err(Opaque('ParseIntError'))
    return ok(v)


# floats
def _f(name):
    def deco(f):
        MODELS['f64::' + name] = f
        return f
    return deco


@_f('is_nan')
def _(eng, ci, a, dt):
    x = a[0]
    return z3.fpIsNaN(x) if is_sym(x) else x != x


@_f('is_infinite')
def _(eng, ci, a, dt):
    x = a[0]
    return z3.fpIsInf(x) if is_sym(x) else math.isinf(x)


@_f('is_finite')
def _(eng, ci, a, dt):
    x = a[0]
    return z3.Not(z3.Or(z3.fpIsInf(x), z3.fpIsNaN(x))) if is_sym(x) else math.isfinite(x)


@_f('is_sign_negative')
def _(eng, ci, a, dt):
    x = a[0]
    if is_sym(x):
        return z3.Extract(63, 63, z3.fpToIEEEBV(x)) == 1
    return math.copysign(1, x) < 0


@_f('is_sign_positive')
def _(eng, ci, a, dt):
    x = a[0]
    if is_sym(x):
        return z3.Extract(63, 63, z3.fpToIEEEBV(x)) == 0
    return math.copysign(1, x) > 0


@_f('abs')
def _(eng, ci, a, dt):
    x = a[0]
    return z3.fpAbs(x) if is_sym(x) else abs(x)


def _round(mode_z3, pyf):
    def f(eng, ci, a, dt):
        x = a[0]
        if is_sym(x):
            return z3.fpRoundToIntegral(mode_z3, x)
        if x != x or math.isinf(x):
            return x
        return pyf(x)
    return f


def _py_round_away(x):
    r = math.floor(abs(x) + 0.5)
    # exactness: |x| + 0.5 may round; use decimal-free approach
    fx = math.floor(abs(x))
    frac = abs(x) - fx
    r = fx + 1 if frac >= 0.5 else fx
    return math.copysign(float(r), x)


_f('floor')(_round(z3.RTN(), lambda x: math.copysign(float(math.floor(x)), x) if math.floor(x) == 0 else float(math.floor(x))))
_f('ceil')(_round(z3.RTP(), lambda x: math.copysign(float(math.ceil(x)), x) if math.ceil(x) == 0 else float(math.ceil(x))))
_f('trunc')(_round(z3.RTZ(), lambda x: math.copysign(float(math.trunc(x)), x)))
_f('round')(_round(z3.RNA(), _py_round_away))
_f('round_ties_even')(_round(z3.RNE(), lambda x: float(round(x))))


@_f('fract')
def _(eng, ci, a, dt):
    x = a[0]
    if is_sym(x):
        return z3.fpSub(ops.RNE, x, z3.fpRoundToIntegral(z3.RTZ(), x))
    return x - math.trunc(x) if math.isfinite(x) else math.nan


@_f('sqrt')
def _(eng, ci, a, dt):
    x = a[0]
    if is_sym(x):
        return z3.fpSqrt(ops.RNE, x)
    return math.sqrt(x) if x >= 0 else math.nan


@_f('min')
def _(eng, ci, a, dt):
    x, y = a
    if is_sym(x) or is_sym(y):
        return z3.fpMin(ops.to_fp(x), ops.to_fp(y))
    if x != x:
        return y
    if y != y:
        return x
    return min(x, y)


@_f('max')
def _(eng, ci, a, dt):
    x, y = a
    if is_sym(x) or is_sym(y):
        return z3.fpMax(ops.to_fp(x), ops.to_fp(y))
    if x != x:
        return y
    if y != y:
        return x
    return max(x, y)


@_f('to_bits')
def _(eng, ci, a, dt):
    x = a[0]
    return z3.fpToIEEEBV(x) if is_sym(x) else ops.float_bits(x)


@_f('from_bits')
def _(eng, ci, a, dt):
    x = a[0]
    return z3.fpBVToFP(x, ops.F64) if is_sym(x) else ops.bits_float(x)


@_f('signum')
def _(eng, ci, a, dt):
    x = a[0]
    if is_sym(x):
        return z3.If(z3.fpIsNaN(x), x, z3.If(z3.Extract(63, 63, z3.fpToIEEEBV(x)) == 1, z3.FPVal(-1.0, ops.F64), z3.FPVal(1.0, ops.F64)))
    if x != x:
        return x
    return math.copysign(1.0, x)


@_f('copysign')
def _(eng, ci, a, dt):
    x, y = a
    if is_sym(x) or is_sym(y):
        raise Unsupported('copysign symbolic')
    return math.copysign(x, y)


@_f('mul_add')
def _(eng, ci, a, dt):
    x, y, z = a
    if is_sym(x) or is_sym(y) or is_sym(z):
        return z3.fpFMA(ops.RNE, ops.to_fp(x), ops.to_fp(y), ops.to_fp(z))
    raise Unsupported('concrete fma')


@_f('total_cmp')
def _(eng, ci, a, dt):
    raise Unsupported('total_cmp')


def _uf1(name, pyf):
    def f(eng, ci, a, dt):
        x = a[0]
        if is_sym(x):
            eng.assumptions.add('f64::%s is an uninterpreted function' % name)
            return eng.uf('f64_' + name, ops.F64, ops.F64)(x)
        try:
            return pyf(x)
        except (ValueError, OverflowError):
            return math.nan
    return f


def _safe_ln(x):
    if x == 0:
        return -math.inf
    if x < 0:
        return math.nan
    return math.log(x)


for _n, _p in (('ln', _safe_ln), ('log10', lambda x: -math.inf if x == 0 else math.log10(x)),
               ('log2', lambda x: -math.inf if x == 0 else math.log2(x)), ('exp', math.exp), ('sin', math.sin),
               ('cos', math.cos), ('tan', math.tan), ('asin', math.asin), ('acos', math.acos), ('atan', math.atan),
               ('sinh', math.sinh), ('cosh', math.cosh), ('tanh', math.tanh)):
    _f(_n)(_uf1(_n, _p))


def _uf2(name, pyf):
    def f(eng, ci, a, dt):
        x, y = a
        if is_sym(x) or is_sym(y):
            eng.assumptions.add('f64::%s is an uninterpreted function' % name)
            ysort = y.sort() if is_sym(y) else (z3.BitVecSort(32) if isinstance(y, int) else ops.F64)
            yy = y if is_sym(y) else (z3.BitVecVal(y, 32) if isinstance(y, int) else z3.FPVal(y, ops.F64))
            return eng.uf('f64_' + name, ops.F64, ysort, ops.F64)(ops.to_fp(x), yy)
        try:
            return pyf(x, y)
        except (ValueError, OverflowError, ZeroDivisionError):
            raise Unsupported('concrete f64::%s(%r,%r)' % (name, x, y))
    return f


def _py_pow(x, y):
    try:
        return math.pow(x, y)
    except OverflowError:
        return math.inf
    except ValueError:
        return math.nan
    except ZeroDivisionError:
        return math.inf


_f('powi')(_uf2('powi', lambda x, y: _py_pow(x, float(y))))
_f('powf')(_uf2('powf', _py_pow))
_f('atan2')(_uf2('atan2', math.atan2))
_f('hypot')(_uf2('hypot', math.hypot))
_f('log')(_uf2('log', lambda x, y: math.log(x, y)))
