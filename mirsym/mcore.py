"""std models, part 1: registry, helpers, Option/Result, Vec/slice, Box, mem, Clone/PartialEq/Default."""
import z3, math
from .mirparse import Unsupported, INT_TYPES, split_top, strip_generics
from .values import *
from . import ops
from .ops import is_sym, bool_and, bool_or, bool_not

MODELS = {}


def model(*keys):
    def deco(f):
        for k in keys:
            MODELS[k] = f
        return f
    return deco


def deref(v):
    n = 0
    while type(v) is Ref:
        v = v.get()
        n += 1
        if n > 16:
            raise Unsupported('ref chain')
    if type(v) is BoxV:
        return deref(v.ptr().get())
    return v


def deref1(v):
    if type(v) is Ref:
        return v.get()
    return v


def none():
    return Enum(0, [], 'Option')


def some(v):
    return Enum(1, [v], 'Option')


def ok(v):
    return Enum(0, [v], 'Result')


def err(v):
    return Enum(1, [v], 'Result')


def is_opt_or_res(v):
    return type(v) is Enum and v.ty in ('Option', 'Result')


def mkstr(s):
    if isinstance(s, str):
        s = s.encode('utf-8')
    return StrV(list(s))


def mkstrslice(s):
    if isinstance(s, str):
        s = s.encode('utf-8')
    b = list(s)
    return Slice(b, 0, len(b), True)


def seq_items(v):
    """element list + window of a Vec/array/slice (by ref or value) -> (lst, lo, hi)"""
    v0 = v
    if type(v) is Ref:
        v = v.get()
        if type(v) is Ref:
            v = v.get()
    if type(v) is BoxV:
        v = v.ptr().get()
    if type(v) is Slice:
        return v.lst, v.lo, v.hi
    if type(v) is VecV or type(v) is Agg:
        return v.f, 0, len(v.f)
    if type(v) is StrV:
        return v.f, 0, len(v.f)
    raise Unsupported('seq_items of %r' % (v0,))


def str_bytes(v):
    """bytes (list) of a String/&str/&String/&&str/char-less value"""
    n = 0
    while True:
        t = type(v)
        if t is Slice:
            return v.lst[v.lo:v.hi]
        if t is StrV:
            return list(v.f)
        if t is Ref:
            v = v.get()
        elif t is BoxV:
            v = v.ptr().get()
        elif t is Enum and v.ty == 'Cow':
            v = v.f[0]
        else:
            raise Unsupported('str_bytes of %r' % (v,))
        n += 1
        if n > 16:
            raise Unsupported('ref chain')


def concrete_bytes(bs):
    for b in bs:
        if is_sym(b):
            return None
    return bytes(bs)


def bytes_eq(a, b):
    if len(a) != len(b):
        return False
    acc = True
    for x, y in zip(a, b):
        if is_sym(x) or is_sym(y):
            acc = bool_and(acc, ops.to_bv(x, 8) == ops.to_bv(y, 8))
        elif x != y:
            return False
    if is_sym(acc):
        acc = z3.simplify(acc)
        if z3.is_true(acc):
            return True
        if z3.is_false(acc):
            return False
    return acc


def scalar_eq(a, b):
    sa, sb = is_sym(a), is_sym(b)
    if not sa and not sb:
        if isinstance(a, float) or isinstance(b, float):
            return a == b
        return a == b
    if isinstance(a, float) or isinstance(b, float) or (sa and z3.is_fp(a)) or (sb and z3.is_fp(b)):
        return z3.fpEQ(ops.to_fp(a), ops.to_fp(b))
    if (sa and z3.is_bool(a)) or (sb and z3.is_bool(b)):
        x = a if sa else z3.BoolVal(bool(a))
        y = b if sb else z3.BoolVal(bool(b))
        return x == y
    w = a.size() if sa else b.size()
    return ops.to_bv(a, w) == ops.to_bv(b, w)


def value_eq(eng, a, b):
    """structural equality (derived PartialEq semantics); returns bool or z3 Bool.
    Crate types with a hand-written PartialEq are dispatched to their MIR."""
    a, b = deref(a), deref(b)
    ta, tb = type(a), type(b)
    if ta in (int, bool, float) or is_sym(a):
        return scalar_eq(a, b)
    if ta is tuple:
        return True
    if ta in (StrV, Slice) and (ta is StrV or a.is_str):
        return bytes_eq(str_bytes(a), str_bytes(b))
    if ta in (VecV, Slice) or (ta is Agg and a.ty in ('array', 'tuple', 'bytes')):
        la, lo, hi = seq_items(a)
        lb, lo2, hi2 = seq_items(b)
        if hi - lo != hi2 - lo2:
            return False
        acc = True
        for x, y in zip(la[lo:hi], lb[lo2:hi2]):
            acc = bool_and(acc, value_eq(eng, x, y))
            if acc is False:
                return False
        return acc
    if ta is Enum:
        if a.ty not in ('Option', 'Result', 'Ordering', 'ControlFlow', 'Cow'):
            fn = eng.resolve_trait_impl(a.ty, 'PartialEq', 'eq')
            if fn is not None:
                return eng.run_fn(fn, [Ref([a], 0), Ref([b], 0)])
        if a.v != b.v:
            return False
        acc = True
        for x, y in zip(a.f, b.f):
            acc = bool_and(acc, value_eq(eng, x, y))
            if acc is False:
                return False
        return acc
    if ta is Agg:
        if a.ty and a.ty not in ('tuple', 'array'):
            fn = eng.resolve_trait_impl(a.ty, 'PartialEq', 'eq')
            if fn is not None:
                return eng.run_fn(fn, [Ref([a], 0), Ref([b], 0)])
        acc = True
        for x, y in zip(a.f, b.f):
            acc = bool_and(acc, value_eq(eng, x, y))
            if acc is False:
                return False
        return acc
    if ta is MapV:
        # keys are pairwise distinct inside each map: equal iff same size and every entry of a has a twin in b
        if len(a.f) != len(b.f):
            return False
        acc = True
        for ka, va in a.f:
            hit = False
            for kb, vb in b.f:
                e = value_eq(eng, ka, kb)
                if e is False:
                    continue
                hit = bool_or(hit, bool_and(e, value_eq(eng, va, vb)))
                if hit is True:
                    break
            acc = bool_and(acc, hit)
            if acc is False:
                return False
        return acc
    raise Unsupported('value_eq of %r' % (a,))


def clone_value(eng, v):
    """Clone::clone semantics: structural copy; hand-written Clone impls run their MIR"""
    v = deref1(v)
    return copy_value(v)


def call_closure(eng, f, args):
    return eng.call_callable(f, args)


def as_opt(eng, v):
    return v


# ----------------------------------------------------------------------------- Option / Result

@model('Option::is_some')
def _(eng, ci, a, dt):
    return deref(a[0]).v == 1


@model('Option::is_none')
def _(eng, ci, a, dt):
    return deref(a[0]).v == 0


@model('Result::is_ok')
def _(eng, ci, a, dt):
    return deref(a[0]).v == 0


@model('Result::is_err')
def _(eng, ci, a, dt):
    return deref(a[0]).v == 1


@model('Option::unwrap', 'Option::expect')
def _(eng, ci, a, dt):
    o = a[0]
    if o.v == 1:
        return o.f[0]
    from .interp import RustPanic
    raise RustPanic('called `Option::unwrap()` on a `None` value', 'unwrap', eng.callstack[-1] if eng.callstack else '')


@model('Result::unwrap', 'Result::expect')
def _(eng, ci, a, dt):
    o = a[0]
    if o.v == 0:
        return o.f[0]
    from .interp import RustPanic
    raise RustPanic('called `Result::unwrap()` on an `Err` value', 'unwrap', eng.callstack[-1] if eng.callstack else '')


@model('Result::unwrap_err', 'Result::expect_err')
def _(eng, ci, a, dt):
    o = a[0]
    if o.v == 1:
        return o.f[0]
    from .interp import RustPanic
    raise RustPanic('called `Result::unwrap_err()` on an `Ok` value', 'unwrap', '')


@model('Option::unwrap_or', 'Result::unwrap_or')
def _(eng, ci, a, dt):
    o = a[0]
    good = (o.v == 1) if o.ty == 'Option' else (o.v == 0)
    return o.f[0] if good else a[1]


@model('Option::unwrap_or_default', 'Result::unwrap_or_default')
def _(eng, ci, a, dt):
    o = a[0]
    good = (o.v == 1) if o.ty == 'Option' else (o.v == 0)
    if good:
        return o.f[0]
    return default_for_type(eng, dt)


@model('Option::unwrap_or_else')
def _(eng, ci, a, dt):
    o = a[0]
    return o.f[0] if o.v == 1 else call_closure(eng, a[1], [])


@model('Result::unwrap_or_else')
def _(eng, ci, a, dt):
    o = a[0]
    return o.f[0] if o.v == 0 else call_closure(eng, a[1], [o.f[0]])


@model('Option::map')
def _(eng, ci, a, dt):
    o = a[0]
    return some(call_closure(eng, a[1], [o.f[0]])) if o.v == 1 else none()


@model('Option::map_or')
def _(eng, ci, a, dt):
    o = a[0]
    return call_closure(eng, a[2], [o.f[0]]) if o.v == 1 else a[1]


@model('Option::map_or_else')
def _(eng, ci, a, dt):
    o = a[0]
    return call_closure(eng, a[2], [o.f[0]]) if o.v == 1 else call_closure(eng, a[1], [])


@model('Option::is_some_and')
def _(eng, ci, a, dt):
    o = a[0]
    return call_closure(eng, a[1], [o.f[0]]) if o.v == 1 else False


@model('Option::is_none_or')
def _(eng, ci, a, dt):
    o = a[0]
    return call_closure(eng, a[1], [o.f[0]]) if o.v == 1 else True


@model('Result::is_ok_and')
def _(eng, ci, a, dt):
    o = a[0]
    return call_closure(eng, a[1], [o.f[0]]) if o.v == 0 else False


@model('Result::map')
def _(eng, ci, a, dt):
    o = a[0]
    return ok(call_closure(eng, a[1], [o.f[0]])) if o.v == 0 else o


@model('Result::map_err')
def _(eng, ci, a, dt):
    o = a[0]
    return err(call_closure(eng, a[1], [o.f[0]])) if o.v == 1 else o


@model('Result::map_or')
def _(eng, ci, a, dt):
    o = a[0]
    return call_closure(eng, a[2], [o.f[0]]) if o.v == 0 else a[1]


@model('Option::and_then')
def _(eng, ci, a, dt):
    o = a[0]
    return call_closure(eng, a[1], [o.f[0]]) if o.v == 1 else none()


@model('Result::and_then')
def _(eng, ci, a, dt):
    o = a[0]
    return call_closure(eng, a[1], [o.f[0]]) if o.v == 0 else o


@model('Option::or')
def _(eng, ci, a, dt):
    return a[0] if a[0].v == 1 else a[1]


@model('Option::or_else')
def _(eng, ci, a, dt):
    return a[0] if a[0].v == 1 else call_closure(eng, a[1], [])


@model('Result::or_else')
def _(eng, ci, a, dt):
    return a[0] if a[0].v == 0 else call_closure(eng, a[1], [a[0].f[0]])


@model('Option::and')
def _(eng, ci, a, dt):
    return a[1] if a[0].v == 1 else none()


@model('Option::filter')
def _(eng, ci, a, dt):
    o = a[0]
    if o.v == 0:
        return o
    keep = eng.truth(call_closure(eng, a[1], [Ref(o.f, 0)]))
    return o if keep else none()


@model('Option::ok_or')
def _(eng, ci, a, dt):
    o = a[0]
    return ok(o.f[0]) if o.v == 1 else err(a[1])


@model('Option::ok_or_else')
def _(eng, ci, a, dt):
    o = a[0]
    return ok(o.f[0]) if o.v == 1 else err(call_closure(eng, a[1], []))


@model('Result::ok')
def _(eng, ci, a, dt):
    o = a[0]
    return some(o.f[0]) if o.v == 0 else none()


@model('Result::err')
def _(eng, ci, a, dt):
    o = a[0]
    return some(o.f[0]) if o.v == 1 else none()


@model('Option::as_ref', 'Option::as_mut', 'Option::as_deref', 'Option::as_deref_mut')
def _(eng, ci, a, dt):
    o = deref(a[0])
    if o.v == 0:
        return none()
    if 'deref' in ci.method:
        inner = o.f[0]
        if type(inner) is StrV:
            return some(Slice(inner.f, 0, len(inner.f), True))
        if type(inner) is VecV:
            return some(Slice(inner.f, 0, len(inner.f), False))
        if type(inner) is BoxV:
            return some(inner.ptr())
        return some(Ref(o.f, 0))
    return some(Ref(o.f, 0))


@model('Result::as_ref', 'Result::as_mut')
def _(eng, ci, a, dt):
    o = deref(a[0])
    return Enum(o.v, [Ref(o.f, 0)], 'Result')


@model('Option::take')
def _(eng, ci, a, dt):
    r = a[0]
    o = r.get()
    r.set(none())
    return o


@model('Option::replace')
def _(eng, ci, a, dt):
    r = a[0]
    o = r.get()
    r.set(some(a[1]))
    return o


@model('Option::insert', 'Option::get_or_insert')
def _(eng, ci, a, dt):
    r = a[0]
    o = r.get()
    if ci.method == 'insert' or o.v == 0:
        o = some(a[1])
        r.set(o)
    return Ref(o.f, 0)


@model('Option::get_or_insert_with')
def _(eng, ci, a, dt):
    r = a[0]
    o = r.get()
    if o.v == 0:
        o = some(call_closure(eng, a[1], []))
        r.set(o)
    return Ref(o.f, 0)


@model('Option::cloned', 'Option::copied')
def _(eng, ci, a, dt):
    o = a[0]
    return some(copy_value(deref1(o.f[0]))) if o.v == 1 else none()


@model('Option::unzip')
def _(eng, ci, a, dt):
    o = a[0]
    if o.v == 1:
        return Agg([some(o.f[0].f[0]), some(o.f[0].f[1])], 'tuple')
    return Agg([none(), none()], 'tuple')


@model('Option::zip')
def _(eng, ci, a, dt):
    if a[0].v == 1 and a[1].v == 1:
        return some(Agg([a[0].f[0], a[1].f[0]], 'tuple'))
    return none()


@model('Option::xor')
def _(eng, ci, a, dt):
    if a[0].v == 1 and a[1].v == 0:
        return a[0]
    if a[0].v == 0 and a[1].v == 1:
        return a[1]
    return none()


@model('Option::transpose')
def _(eng, ci, a, dt):
    o = a[0]
    if o.v == 0:
        return ok(none())
    r = o.f[0]
    return ok(some(r.f[0])) if r.v == 0 else err(r.f[0])


@model('Option::flatten')
def _(eng, ci, a, dt):
    o = a[0]
    return o.f[0] if o.v == 1 else none()


@model('Option::iter', 'Option::into_iter', 'IntoIterator::into_iter@Option')
def _(eng, ci, a, dt):
    from .miter import ListIter
    o = deref(a[0])
    by_ref = type(a[0]) is Ref
    if o.v == 0:
        return ListIter([])
    return ListIter([Ref(o.f, 0) if by_ref else o.f[0]])


# `?` operator
@model('Try::branch')
def _(eng, ci, a, dt):
    o = a[0]
    if o.ty == 'Result':
        if o.v == 0:
            return Enum(0, [o.f[0]], 'ControlFlow')
        return Enum(1, [Enum(1, [o.f[0]], 'Result')], 'ControlFlow')
    if o.ty == 'Option':
        if o.v == 1:
            return Enum(0, [o.f[0]], 'ControlFlow')
        return Enum(1, [none()], 'ControlFlow')
    raise Unsupported('Try::branch on %r' % (o,))


@model('FromResidual::from_residual')
def _(eng, ci, a, dt):
    r = a[0]
    if r.ty == 'Result':
        e = r.f[0]
        # error conversion through From: only identity and String-from-&str supported
        sty = ci.self_ty or ''
        if type(e) is Slice and e.is_str and 'String' in sty:
            e = StrV(list(e.items()))
        elif isinstance(e, (Agg, Enum)) and e.ty and not isinstance(e, (BoxV, Closure)):
            # crate error types converting into another crate type via From
            pass
        if sty.startswith('std::option::Option') or sty.startswith('Option'):
            return none()
        return err(e)
    if r.ty == 'Option':
        return none()
    raise Unsupported('from_residual %r' % (r,))


@model('Try::from_output')
def _(eng, ci, a, dt):
    sty = ci.self_ty or ''
    if 'Option' in strip_generics(sty).split('::')[-1]:
        return some(a[0])
    return ok(a[0])


# ----------------------------------------------------------------------------- Box / mem / misc

@model('Box::new')
def _(eng, ci, a, dt):
    return BoxV(a[0])


@model('Box::new_uninit')
def _(eng, ci, a, dt):
    # cell layout MaybeUninit<T>{ uninit:(), value: ManuallyDrop{ MaybeDangling{ T } } }
    return BoxV(Agg([UNIT, Agg([Agg([None])])], 'MaybeUninit'))


@model('boxed::box_assume_init_into_vec_unsafe')
def _(eng, ci, a, dt):
    mu = a[0].ptr().get()
    arr = mu.f[1].f[0].f[0]
    return VecV(list(arr.f))


@model('Box::assume_init')
def _(eng, ci, a, dt):
    mu = a[0].ptr().get()
    return BoxV(mu.f[1].f[0].f[0])


@model('slice::into_vec')
def _(eng, ci, a, dt):
    v = a[0]
    if type(v) is BoxV:
        arr = v.ptr().get()
        return VecV(list(arr.f))
    raise Unsupported('into_vec of %r' % (v,))


@model('Deref::deref@Box', 'DerefMut::deref_mut@Box', 'AsRef::as_ref@Box', 'Borrow::borrow@Box', 'AsMut::as_mut@Box')
def _(eng, ci, a, dt):
    return deref1(a[0]).ptr()


@model('mem::take')
def _(eng, ci, a, dt):
    r = a[0]
    old = r.get()
    r.set(default_like(eng, old, ci.generics[0] if ci.generics else None))
    return old


@model('mem::replace')
def _(eng, ci, a, dt):
    r = a[0]
    old = r.get()
    r.set(a[1])
    return old


@model('mem::swap')
def _(eng, ci, a, dt):
    x, y = a[0], a[1]
    t = x.get()
    x.set(y.get())
    y.set(t)
    return UNIT


@model('mem::drop', 'mem::forget', 'hint::must_use', 'must_use')
def _(eng, ci, a, dt):
    if ci.method == 'must_use':
        return a[0]
    return UNIT


@model('hint::black_box', 'convert::identity')
def _(eng, ci, a, dt):
    return a[0]


@model('intrinsics::discriminant_value', 'mem::discriminant', 'discriminant')
def _(eng, ci, a, dt):
    return eng.discriminant(deref(a[0]))


@model('hint::unreachable_unchecked', 'intrinsics::unreachable')
def _(eng, ci, a, dt):
    raise Unsupported('unreachable_unchecked reached')


@model('intrinsics::cold_path', 'hint::cold_path', 'hint::assert_unchecked', 'intrinsics::assume')
def _(eng, ci, a, dt):
    return UNIT


@model('panicking::panic', 'panicking::panic_fmt', 'panicking::panic_display', 'panicking::panic_explicit',
       'panicking::unreachable_display', 'panicking::begin_panic', 'panicking::panic_nounwind',
       'option::expect_failed', 'result::unwrap_failed', 'option::unwrap_failed', 'panicking::assert_failed',
       'panicking::panic_bounds_check', 'slice::index::slice_index_fail', 'str::slice_error_fail',
       'rt::panic_fmt', 'rt::begin_panic')
def _(eng, ci, a, dt):
    from .interp import RustPanic
    msg = ci.method
    try:
        if a and type(a[0]) is Slice:
            msg = bytes(a[0].items()).decode('utf-8', 'replace')
        elif a and isinstance(a[0], FmtArgs):
            from .mstr import render_fmt
            msg = bytes(render_fmt(eng, a[0])).decode('utf-8', 'replace')
    except Exception:
        pass
    raise RustPanic(msg, 'explicit', eng.callstack[-1] if eng.callstack else '')


# ----------------------------------------------------------------------------- Default

def default_like(eng, old, ty):
    t = type(old)
    if t is VecV:
        return VecV([])
    if t is StrV:
        return StrV([])
    if t is MapV:
        return MapV([], old.ordered)
    if t is Enum and old.ty == 'Option':
        return none()
    if t is int:
        return 0
    if t is bool:
        return False
    if t is float:
        return 0.0
    if is_sym(old):
        if z3.is_bool(old):
            return False
        if z3.is_fp(old):
            return 0.0
        return 0
    if ty:
        return default_for_type(eng, ty)
    raise Unsupported('default_like %r' % (old,))


def default_for_type(eng, ty):
    if ty is None:
        raise Unsupported('Default for unknown type')
    ty = ty.strip()
    if ty in INT_TYPES:
        return 0
    if ty == 'bool':
        return False
    if ty in ('f64', 'f32'):
        return 0.0
    if ty == '()':
        return UNIT
    from .interp import type_head
    h = type_head(ty)
    if h == 'String':
        return StrV([])
    if h in ('Vec', 'VecDeque'):
        return VecV([])
    if h in ('HashMap', 'HashSet'):
        return MapV([])
    if h in ('BTreeMap', 'BTreeSet'):
        return MapV([], True)
    if h == 'Option':
        return none()
    if ty.startswith('&') and 'str' in ty:
        return mkstrslice('')
    if h == 'tuple':
        return Agg([default_for_type(eng, t) for t in split_top(ty[1:-1])], 'tuple')
    fn = eng.resolve_trait_impl(ty, 'Default', 'default')
    if fn is not None:
        return eng.run_fn(fn, [])
    raise Unsupported('Default::default for %s' % ty)


@model('Default::default')
def _(eng, ci, a, dt):
    return default_for_type(eng, ci.self_ty if ci.self_ty and not ci.kind == 'dyn' else dt)


# ----------------------------------------------------------------------------- Clone / PartialEq / Ord

@model('Clone::clone', 'ToOwned::to_owned', 'Clone::clone_from')
def _(eng, ci, a, dt):
    if ci.method == 'clone_from':
        a[0].set(copy_value(deref1(a[1])))
        return UNIT
    v = a[0]
    if type(v) is Slice:
        if v.is_str:
            return StrV(v.items())
        return VecV([copy_value(x) for x in v.items()])
    v = deref1(v)
    if type(v) is Slice:      # &&str -> &str
        return v
    return copy_value(v)


@model('PartialEq::eq')
def _(eng, ci, a, dt):
    return value_eq(eng, a[0], a[1])


@model('PartialEq::ne')
def _(eng, ci, a, dt):
    return bool_not(value_eq(eng, a[0], a[1]))


def scalar_sort_info(eng, ci, v):
    """(kind, width, signed) of a scalar from the call's self type / generics"""
    cands = []
    if ci.self_ty:
        cands.append(ci.self_ty)
    cands += ci.generics
    if ci.impl_ty:
        cands.append(ci.impl_ty)
    from .interp import strip_ref
    for c in cands:
        c = strip_ref(c)
        if c in INT_TYPES:
            return ('int',) + INT_TYPES[c]
        if c == 'f64':
            return ('float', 64, True)
        if c == 'bool':
            return ('bool', 1, False)
    if isinstance(v, float) or (is_sym(v) and z3.is_fp(v)):
        return ('float', 64, True)
    if isinstance(v, bool) or (is_sym(v) and z3.is_bool(v)):
        return ('bool', 1, False)
    raise Unsupported('scalar type unknown for %s' % ci.text)


def value_lt(eng, ci, a, b):
    k = scalar_sort_info(eng, ci, a)
    if k[0] == 'int':
        return ops.int_binop('Lt', a, b, k[1], k[2])
    if k[0] == 'float':
        return ops.float_binop('Lt', a, b)
    return ops.bool_binop('Lt', a, b)


def compare_values(eng, ci, a, b):
    """three-way compare -> python int -1/0/1 (forks)"""
    a, b = deref(a), deref(b)
    if type(a) in (StrV, Slice) and (type(a) is StrV or a.is_str):
        x, y = str_bytes(a), str_bytes(b)
        for p, q in zip(x, y):
            if eng.truth(ops.int_binop('Lt', p, q, 8, False)):
                return -1
            if eng.truth(ops.int_binop('Lt', q, p, 8, False)):
                return 1
        return (len(x) > len(y)) - (len(x) < len(y))
    if type(a) is Agg and a.ty in ('tuple', 'array') or type(a) in (VecV,):
        for p, q in zip(a.f, b.f):
            r = compare_values(eng, ci, p, q)
            if r:
                return r
        return (len(a.f) > len(b.f)) - (len(a.f) < len(b.f))
    if type(a) is Enum and a.ty == 'Option':
        if a.v != b.v:
            return -1 if a.v < b.v else 1
        if a.v == 0:
            return 0
        return compare_values(eng, ci, a.f[0], b.f[0])
    if type(a) is Enum and not a.f and not b.f:
        da, db = eng.discriminant(a), eng.discriminant(b)
        return (da > db) - (da < db)
    if eng.truth(value_lt_any(eng, ci, a, b)):
        return -1
    if eng.truth(value_lt_any(eng, ci, b, a)):
        return 1
    return 0


def value_lt_any(eng, ci, a, b):
    try:
        return value_lt(eng, ci, a, b)
    except Unsupported:
        # infer: unsigned unless stated (chars, usize) is unsafe -> require type
        raise


def ordering(n):
    return Enum(n + 1, [], 'Ordering')


@model('Ord::cmp', 'PartialOrd::partial_cmp')
def _(eng, ci, a, dt):
    x, y = deref(a[0]), deref(a[1])
    if ci.method == 'partial_cmp' and (isinstance(x, float) or (is_sym(x) and z3.is_fp(x))):
        nan = bool_or(ops.float_binop('Ne', x, x), ops.float_binop('Ne', y, y))
        if eng.truth(nan):
            return none()
    r = ordering(compare_values(eng, ci, x, y))
    return some(r) if ci.method == 'partial_cmp' else r


@model('PartialOrd::lt', 'PartialOrd::le', 'PartialOrd::gt', 'PartialOrd::ge')
def _(eng, ci, a, dt):
    x, y = deref(a[0]), deref(a[1])
    t = type(x)
    if t in (int, float, bool) or is_sym(x):
        k = scalar_sort_info(eng, ci, x)
        op = {'lt': 'Lt', 'le': 'Le', 'gt': 'Gt', 'ge': 'Ge'}[ci.method]
        if k[0] == 'int':
            return ops.int_binop(op, x, y, k[1], k[2])
        if k[0] == 'float':
            return ops.float_binop(op, x, y)
        return ops.bool_binop(op, x, y)
    r = compare_values(eng, ci, x, y)
    return {'lt': r < 0, 'le': r <= 0, 'gt': r > 0, 'ge': r >= 0}[ci.method]


@model('Ord::max', 'Ord::min', 'cmp::max', 'cmp::min')
def _(eng, ci, a, dt):
    x, y = a[0], a[1]
    k = scalar_sort_info(eng, ci, x)
    if k[0] != 'int':
        raise Unsupported('Ord::max on non-int')
    lt = ops.int_binop('Lt', y, x, k[1], k[2])     # y < x
    if ci.method == 'max':
        # max returns y when equal; value-wise identical for ints
        return ops.bool_ite(lt, x, y) if is_sym(lt) else (x if lt else y)
    return ops.bool_ite(lt, y, x) if is_sym(lt) else (y if lt else x)


@model('Ord::clamp')
def _(eng, ci, a, dt):
    x, lo, hi = a
    k = scalar_sort_info(eng, ci, x)
    if k[0] != 'int':
        raise Unsupported('clamp on non-int')
    if eng.truth(ops.int_binop('Lt', x, lo, k[1], k[2])):
        return lo
    if eng.truth(ops.int_binop('Gt', x, hi, k[1], k[2])):
        return hi
    return x


@model('Ordering::is_eq', 'Ordering::is_ne', 'Ordering::is_lt', 'Ordering::is_gt', 'Ordering::is_le',
       'Ordering::is_ge', 'Ordering::reverse', 'Ordering::then')
def _(eng, ci, a, dt):
    n = a[0].v - 1
    m = ci.method
    if m == 'reverse':
        return ordering(-n)
    if m == 'then':
        return a[0] if n != 0 else a[1]
    return {'is_eq': n == 0, 'is_ne': n != 0, 'is_lt': n < 0, 'is_gt': n > 0, 'is_le': n <= 0, 'is_ge': n >= 0}[m]


@model('From::from', 'Into::into')
def _(eng, ci, a, dt):
    v = a[0]
    from .interp import type_head, strip_ref
    target = ci.self_ty if ci.method == 'from' else (ci.trait_arg if hasattr(ci, 'trait_arg') else None)
    tgt = dt or target or ''
    h = type_head(tgt) if tgt else ''
    if type(v) is Slice and v.is_str:
        if h == 'String':
            return StrV(v.items())
        if h == 'Box' or h == 'Cow':
            raise Unsupported('From<&str> for ' + tgt)
        if h == 'Vec':
            return VecV(v.items())
        return v
    if type(v) is StrV:
        if h == 'Vec':
            return VecV(list(v.f))
        return v
    if type(v) in (int, bool) or (is_sym(v) and (z3.is_bv(v) or z3.is_bool(v))):
        st = None
        src = None
        # <i64 as From<i32>>::from  /  <i32 as Into<i64>>::into
        import re
        if ci.method == 'from':
            m = re.search(r'From<([a-z0-9]+)>', ci.text)
            src = m.group(1) if m else None
            dst = strip_ref(ci.self_ty or '')
        else:
            m = re.search(r'Into<([a-z0-9]+)>', ci.text)
            dst = m.group(1) if m else None
            src = strip_ref(ci.self_ty or '')
        if dst in ('f64', 'f32') and src in INT_TYPES:
            return ops.int_to_float(v, INT_TYPES[src][0], INT_TYPES[src][1])
        if src == 'bool' and dst in INT_TYPES:
            return ops.int_to_int(v, 8, False, INT_TYPES[dst][0], INT_TYPES[dst][1])
        if src in INT_TYPES and dst in INT_TYPES:
            return ops.int_to_int(v, INT_TYPES[src][0], INT_TYPES[src][1], INT_TYPES[dst][0], INT_TYPES[dst][1])
        if src == dst:
            return v
        raise Unsupported('From/Into %s' % ci.text)
    if type(v) is VecV and h in ('Vec', 'VecDeque', ''):
        return v
    if type(v) is Agg and v.ty == 'array' and h == 'Vec':
        return VecV(list(v.f))
    if h and isinstance(v, (Agg, Enum)) and v.ty and v.ty.split('::')[-1] == h:
        return v
    if isinstance(v, float) or (is_sym(v) and z3.is_fp(v)):
        return v
    raise Unsupported('From/Into: %s with %r' % (ci.text, v))


@model('TryFrom::try_from', 'TryInto::try_into')
def _(eng, ci, a, dt):
    import re
    from .interp import strip_ref
    v = a[0]
    if ci.method == 'try_from':
        m = re.search(r'TryFrom<([a-z0-9]+)>', ci.text)
        src = m.group(1) if m else None
        dst = strip_ref(ci.self_ty or '')
    else:
        m = re.search(r'TryInto<([a-z0-9]+)>', ci.text)
        dst = m.group(1) if m else None
        src = strip_ref(ci.self_ty or '')
    if src in INT_TYPES and dst in INT_TYPES:
        sw, ss = INT_TYPES[src]
        dw, ds = INT_TYPES[dst]
        lo = -(1 << (dw - 1)) if ds else 0
        hi = (1 << (dw - 1)) - 1 if ds else (1 << dw) - 1
        if not is_sym(v):
            return ok(v) if lo <= v <= hi else err(Opaque('TryFromIntError'))
        slo = -(1 << (sw - 1)) if ss else 0
        shi = (1 << (sw - 1)) - 1 if ss else (1 << sw) - 1
        c = True
        if lo > slo:
            c = bool_and(c, ops.int_binop('Ge', v, max(lo, slo), sw, ss))
        if hi < shi:
            c = bool_and(c, ops.int_binop('Le', v, hi, sw, ss))
        if eng.truth(c):
            return ok(ops.int_to_int(v, sw, ss, dw, ds))
        return err(Opaque('TryFromIntError'))
    raise Unsupported('TryFrom %s' % ci.text)


@model('AsRef::as_ref', 'Borrow::borrow', 'Deref::deref', 'DerefMut::deref_mut', 'AsMut::as_mut',
       'BorrowMut::borrow_mut')
def _(eng, ci, a, dt):
    r = a[0]
    v = deref1(r)
    t = type(v)
    if t is StrV:
        if dt and 'str' in dt and 'String' not in dt or (dt and '[u8]' in dt):
            return Slice(v.f, 0, len(v.f), 'str' in (dt or 'str'))
        if dt and 'String' in dt:
            return r
        return Slice(v.f, 0, len(v.f), True)
    if t is VecV:
        if dt and 'Vec<' in dt:
            return r
        return Slice(v.f, 0, len(v.f), False)
    if t is Slice:
        return v
    if t is BoxV:
        return v.ptr()
    if t is Agg and v.ty == 'array':
        return Slice(v.f, 0, len(v.f), False)
    if t is Enum and v.ty == 'Cow':
        inner = v.f[0]
        if type(inner) is StrV:
            return Slice(inner.f, 0, len(inner.f), True)
        return inner
    return r


@model('Add::add', 'Sub::sub', 'Mul::mul')
def _(eng, ci, a, dt):
    """`<&i32 as Sub<i32>>::sub` and friends: the std impls forward to the primitive op and inherit the
    caller's overflow checks (rustc_inherit_overflow_checks) -> overflow is a panic path, as in MIR."""
    from .interp import RustPanic
    x, y = deref(a[0]), deref(a[1])
    k = scalar_sort_info(eng, ci, x)
    if k[0] != 'int':
        raise Unsupported('operator trait call on non-integer: ' + ci.text)
    op = {'add': 'AddWithOverflow', 'sub': 'SubWithOverflow', 'mul': 'MulWithOverflow'}[ci.method]
    r = ops.int_binop(op, x, y, k[1], k[2])
    if eng.truth(r.f[1]):
        raise RustPanic('attempt to %s with overflow' % ci.method, 'overflow', ci.text)
    return r.f[0]


@model('Fn::call', 'FnMut::call_mut', 'FnOnce::call_once')
def _(eng, ci, a, dt):
    """<F as Fn<(A, B)>>::call(&f, (a, b)) on a closure / fn item value"""
    args = a[1]
    if args == UNIT:
        args = []
    elif type(args) is Agg:
        args = list(args.f)
    else:
        raise Unsupported('Fn::call argument pack %r' % (args,))
    f = a[0]
    fv = deref(f) if type(f) is Ref else f
    if fv is None and ci.self_ty and '{closure@' in ci.self_ty:
        # a closure without captures is a zero-sized value: its local is never written
        t = ci.self_ty
        i = t.index('{closure@')
        from .mirparse import find_matching
        f = Closure(t[i:find_matching(t, i) + 1], [])
    return eng.call_callable(f, args)


# ----------------------------------------------------------------------------- NonZero (chrono's NaiveDate is a NonZero<i32>)

@model('NonZero::new_unchecked')
def _(eng, ci, a, dt):
    return Agg([a[0]], 'NonZero')


@model('NonZero::new')
def _(eng, ci, a, dt):
    v = a[0]
    z = (v == 0) if not is_sym(v) else (v == z3.BitVecVal(0, v.size()))
    if eng.truth(z):
        return none()
    return some(Agg([v], 'NonZero'))


@model('NonZero::get')
def _(eng, ci, a, dt):
    return deref(a[0]).f[0]


@model('Drop::drop')
def _(eng, ci, a, dt):
    """explicit drop glue call (e.g. of a moved-out Box): no user Drop impl exists in the crate (checked by the driver)"""
    return UNIT


@model('Not::not')
def _(eng, ci, a, dt):
    v = deref(a[0])
    if isinstance(v, bool) or (is_sym(v) and z3.is_bool(v)):
        return bool_not(v)
    raise Unsupported('Not::not on %r' % (v,))
