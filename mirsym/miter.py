"""std models, part 2: Vec / slices / arrays and the iterator framework."""
import z3
from .mirparse import Unsupported, INT_TYPES, split_top
from .values import *
from . import ops
from .ops import is_sym, bool_and, bool_or, bool_not
from .mcore import (model, MODELS, deref, deref1, none, some, ok, err, seq_items, value_eq, call_closure,
                    str_bytes, default_for_type, compare_values, scalar_sort_info, mkstr)

END = object()


def panic(eng, msg, kind='explicit'):
    from .interp import RustPanic
    raise RustPanic(msg, kind, eng.callstack[-1] if eng.callstack else '')


# ----------------------------------------------------------------------------- iterator objects

class It:
    """base: python-side iterator object living in MIR locals"""
    def next(self, eng):
        raise Unsupported('next on %s' % type(self).__name__)

    def next_back(self, eng):
        raise Unsupported('next_back on %s' % type(self).__name__)

    def clone(self):
        raise Unsupported('clone of iterator %s' % type(self).__name__)

    def size_hint_exact(self):
        return None


class ListIter(It):
    """owning iterator over python list of values"""
    def __init__(self, items):
        self.items = list(items)
        self.lo = 0
        self.hi = len(self.items)

    def next(self, eng):
        if self.lo >= self.hi:
            return END
        v = self.items[self.lo]
        self.lo += 1
        return v

    def next_back(self, eng):
        if self.lo >= self.hi:
            return END
        self.hi -= 1
        return self.items[self.hi]

    def clone(self):
        c = ListIter([copy_value(x) for x in self.items[self.lo:self.hi]])
        return c

    def size_hint_exact(self):
        return self.hi - self.lo


class SliceIter(It):
    """slice::Iter / IterMut: yields references to the cells"""
    def __init__(self, lst, lo, hi):
        self.lst, self.lo, self.hi = lst, lo, hi

    def next(self, eng):
        if self.lo >= self.hi:
            return END
        r = Ref(self.lst, self.lo)
        self.lo += 1
        return r

    def next_back(self, eng):
        if self.lo >= self.hi:
            return END
        self.hi -= 1
        return Ref(self.lst, self.hi)

    def clone(self):
        return SliceIter(self.lst, self.lo, self.hi)

    def size_hint_exact(self):
        return self.hi - self.lo


class MapEntryIter(It):
    """HashMap iter: yields (&K,&V) / keys / values / owned pairs"""
    def __init__(self, entries, mode):
        self.entries = list(entries)
        self.i = 0
        self.mode = mode

    def next(self, eng):
        if self.i >= len(self.entries):
            return END
        e = self.entries[self.i]
        self.i += 1
        m = self.mode
        if m == 'pairs':
            return Agg([Ref(e, 0), Ref(e, 1)], 'tuple')
        if m == 'keys':
            return Ref(e, 0)
        if m == 'values':
            return Ref(e, 1)
        if m == 'owned':
            return Agg([e[0], e[1]], 'tuple')
        if m == 'owned_keys':
            return e[0]
        if m == 'owned_values':
            return e[1]
        raise Unsupported(m)

    def clone(self):
        c = MapEntryIter(self.entries, self.mode)
        c.i = self.i
        return c

    def size_hint_exact(self):
        return len(self.entries) - self.i


def decode_char(eng, lst, i, hi):
    """decode one UTF-8 char at lst[i]; symbolic bytes must be ASCII.  -> (codepoint, nbytes)"""
    b = lst[i]
    if is_sym(b):
        eng.require_ascii(b)
        return z3.ZeroExt(24, b), 1
    if b < 0x80:
        return b, 1
    n = 2 if b < 0xe0 else (3 if b < 0xf0 else 4)
    chunk = lst[i:i + n]
    for c in chunk:
        if is_sym(c):
            raise Unsupported('symbolic continuation byte')
    return ord(bytes(chunk).decode('utf-8')), n


def decode_char_back(eng, lst, lo, hi):
    b = lst[hi - 1]
    if is_sym(b):
        eng.require_ascii(b)
        return z3.ZeroExt(24, b), 1
    if b < 0x80:
        return b, 1
    j = hi - 1
    while j > lo and not is_sym(lst[j]) and (lst[j] & 0xc0) == 0x80:
        j -= 1
    return ord(bytes(lst[j:hi]).decode('utf-8')), hi - j


class CharsIter(It):
    def __init__(self, lst, lo, hi, indices=False, base=None):
        self.lst, self.lo, self.hi = lst, lo, hi
        self.indices = indices
        self.base = lo if base is None else base

    def next(self, eng):
        if self.lo >= self.hi:
            return END
        c, n = decode_char(eng, self.lst, self.lo, self.hi)
        pos = self.lo - self.base
        self.lo += n
        return Agg([pos, c], 'tuple') if self.indices else c

    def next_back(self, eng):
        if self.lo >= self.hi:
            return END
        c, n = decode_char_back(eng, self.lst, self.lo, self.hi)
        self.hi -= n
        return Agg([self.hi - self.base, c], 'tuple') if self.indices else c

    def clone(self):
        return CharsIter(self.lst, self.lo, self.hi, self.indices, self.base)

    def as_str(self):
        return Slice(self.lst, self.lo, self.hi, True)


class BytesIter(It):
    def __init__(self, lst, lo, hi):
        self.lst, self.lo, self.hi = lst, lo, hi

    def next(self, eng):
        if self.lo >= self.hi:
            return END
        v = self.lst[self.lo]
        self.lo += 1
        return v

    def next_back(self, eng):
        if self.lo >= self.hi:
            return END
        self.hi -= 1
        return self.lst[self.hi]

    def clone(self):
        return BytesIter(self.lst, self.lo, self.hi)

    def size_hint_exact(self):
        return self.hi - self.lo


class Adapter(It):
    def __init__(self, kind, inner, f=None, extra=None):
        self.kind = kind
        self.inner = inner
        self.f = f
        self.extra = extra
        self.state = 0
        self.peeked = None

    def clone(self):
        c = Adapter(self.kind, self.inner.clone() if isinstance(self.inner, It) else copy_value(self.inner), self.f,
                    self.extra.clone() if isinstance(self.extra, It) else self.extra)
        c.state = self.state
        c.peeked = self.peeked
        return c

    def size_hint_exact(self):
        k = self.kind
        n = self.inner.size_hint_exact() if isinstance(self.inner, It) else None
        if n is None:
            return None
        if k in ('map', 'rev', 'copied', 'cloned', 'enumerate'):
            return n
        if k == 'zip':
            m = self.extra.size_hint_exact()
            return None if m is None else min(n, m)
        if k == 'chain':
            m = self.extra.size_hint_exact()
            return None if m is None else n + m
        if k == 'peekable':
            return n + (1 if self.peeked is not None and self.peeked is not END else 0)
        return None

    def next(self, eng, back=False):
        k = self.kind
        inn = self.inner
        nxt = (lambda: iter_next_back(eng, inn)) if back else (lambda: iter_next(eng, inn))
        if k == 'map':
            v = nxt()
            return END if v is END else call_closure(eng, self.f, [v])
        if k == 'copied' or k == 'cloned':
            v = nxt()
            return END if v is END else copy_value(deref1(v))
        if k == 'filter':
            while True:
                v = nxt()
                if v is END:
                    return END
                if eng.truth(call_closure(eng, self.f, [Ref([v], 0)])):
                    return v
        if k == 'filter_map':
            while True:
                v = nxt()
                if v is END:
                    return END
                r = call_closure(eng, self.f, [v])
                if r.v == 1:
                    return r.f[0]
        if k == 'enumerate':
            if back:
                raise Unsupported('enumerate next_back')
            v = nxt()
            if v is END:
                return END
            i = self.state
            self.state += 1
            return Agg([i, v], 'tuple')
        if k == 'rev':
            return iter_next(eng, inn) if back else iter_next_back(eng, inn)
        if k == 'skip':
            while self.state < self.extra:
                self.state += 1
                if iter_next(eng, inn) is END:
                    return END
            return nxt()
        if k == 'take':
            if self.state >= self.extra:
                return END
            self.state += 1
            return nxt()
        if k == 'step_by':
            v = nxt()
            if v is END:
                return END
            for _ in range(self.extra - 1):
                if iter_next(eng, inn) is END:
                    break
            return v
        if k == 'take_while':
            if self.state:
                return END
            v = nxt()
            if v is END:
                return END
            if eng.truth(call_closure(eng, self.f, [Ref([v], 0)])):
                return v
            self.state = 1
            return END
        if k == 'skip_while':
            while True:
                v = nxt()
                if v is END:
                    return END
                if self.state or not eng.truth(call_closure(eng, self.f, [Ref([v], 0)])):
                    self.state = 1
                    return v
        if k == 'map_while':
            v = nxt()
            if v is END:
                return END
            r = call_closure(eng, self.f, [v])
            return r.f[0] if r.v == 1 else END
        if k == 'zip':
            a = nxt()
            if a is END:
                return END
            b = iter_next(eng, self.extra)
            if b is END:
                return END
            return Agg([a, b], 'tuple')
        if k == 'chain':
            if back:
                v = iter_next_back(eng, self.extra)
                if v is not END:
                    return v
                return iter_next_back(eng, inn)
            if self.state == 0:
                v = nxt()
                if v is not END:
                    return v
                self.state = 1
            return iter_next(eng, self.extra)
        if k == 'peekable':
            if self.peeked is not None:
                v = self.peeked
                self.peeked = None
                return v
            return nxt()
        if k == 'flat_map' or k == 'flatten':
            while True:
                if self.extra is not None:
                    v = iter_next(eng, self.extra)
                    if v is not END:
                        return v
                    self.extra = None
                o = nxt()
                if o is END:
                    return END
                if k == 'flat_map':
                    o = call_closure(eng, self.f, [o])
                self.extra = into_iter(eng, o)
        if k == 'inspect':
            v = nxt()
            if v is not END:
                call_closure(eng, self.f, [Ref([v], 0)])
            return v
        if k == 'fuse':
            return nxt()
        if k == 'scan':
            v = nxt()
            if v is END:
                return END
            r = call_closure(eng, self.f, [Ref(self.extra, 0), v])
            return r.f[0] if r.v == 1 else END
        raise Unsupported('adapter ' + k)

    def next_back(self, eng):
        return self.next(eng, back=True)


def range_parts(r):
    """Range Agg [start,end] / RangeInclusive object"""
    return r


class RangeIncl(It):
    """RangeInclusive<T>"""
    def __init__(self, lo, hi, w=64, signed=False, exhausted=False):
        self.lo, self.hi, self.w, self.signed, self.exhausted = lo, hi, w, signed, exhausted

    @property
    def f(self):
        return [self.lo, self.hi, self.exhausted]

    def next(self, eng):
        if self.exhausted:
            return END
        if not eng.truth(ops.int_binop('Le', self.lo, self.hi, self.w, self.signed)):
            return END
        v = self.lo
        if eng.truth(ops.int_binop('Lt', self.lo, self.hi, self.w, self.signed)):
            self.lo = ops.int_binop('Add', self.lo, 1, self.w, self.signed)
        else:
            self.exhausted = True
        return v

    def next_back(self, eng):
        if self.exhausted:
            return END
        if not eng.truth(ops.int_binop('Le', self.lo, self.hi, self.w, self.signed)):
            return END
        v = self.hi
        if eng.truth(ops.int_binop('Lt', self.lo, self.hi, self.w, self.signed)):
            self.hi = ops.int_binop('Sub', self.hi, 1, self.w, self.signed)
        else:
            self.exhausted = True
        return v

    def clone(self):
        return RangeIncl(self.lo, self.hi, self.w, self.signed, self.exhausted)


def range_type(ci, dflt=(64, False)):
    import re
    m = re.search(r'Range(?:Inclusive)?<([a-z0-9]+)>', ci.text)
    if m and m.group(1) in INT_TYPES:
        return INT_TYPES[m.group(1)]
    for g in ci.generics:
        if g in INT_TYPES:
            return INT_TYPES[g]
    return None


def range_next(eng, r, w, signed, back=False):
    lo, hi = r.f[0], r.f[1]
    if not eng.truth(ops.int_binop('Lt', lo, hi, w, signed)):
        return END
    if back:
        r.f[1] = ops.int_binop('Sub', hi, 1, w, signed)
        return r.f[1]
    r.f[0] = ops.int_binop('Add', lo, 1, w, signed)
    return lo


def iter_next(eng, it):
    if isinstance(it, It):
        return it.next(eng)
    if type(it) is Ref:
        return iter_next(eng, it.get())
    if type(it) is Agg and it.ty == 'Range':
        w, s = getattr(eng, '_range_ty', (64, False))
        return range_next(eng, it, *range_infer(it))
    raise Unsupported('iter_next on %r' % (it,))


def iter_next_back(eng, it):
    if isinstance(it, It):
        return it.next_back(eng)
    if type(it) is Ref:
        return iter_next_back(eng, it.get())
    if type(it) is Agg and it.ty == 'Range':
        return range_next(eng, it, *range_infer(it), back=True)
    raise Unsupported('iter_next_back on %r' % (it,))


def range_infer(r):
    """width/sign of a Range aggregate from its operands (set by the constructor site when known)"""
    t = getattr(r, 'ty', None)
    for v in r.f[:2]:
        if is_sym(v):
            w = v.size()
            return w, RANGE_SIGNED.get(id(r), w == 32)
    return RANGE_SIGNED_W.get(id(r), (64, True))


RANGE_SIGNED = {}
RANGE_SIGNED_W = {}


def into_iter(eng, v):
    if isinstance(v, It):
        return v
    t = type(v)
    if t is Ref:
        inner = v.get()
        ti = type(inner)
        if ti is VecV or (ti is Agg and inner.ty == 'array'):
            return SliceIter(inner.f, 0, len(inner.f))
        if ti is MapV:
            return MapEntryIter(inner.f, 'pairs' if not inner_is_set(inner) else 'keys')
        if ti is Enum and inner.ty == 'Option':
            return ListIter([Ref(inner.f, 0)] if inner.v == 1 else [])
        if ti is Ref or ti is Slice:
            return into_iter(eng, inner)
        if isinstance(inner, It):
            return inner
        if ti is Agg and inner.ty == 'Range':
            return inner
    if t is Slice:
        if v.is_str:
            raise Unsupported('into_iter on str')
        return SliceIter(v.lst, v.lo, v.hi)
    if t is VecV:
        return ListIter(v.f)
    if t is Agg and v.ty == 'array':
        return ListIter(v.f)
    if t is Agg and v.ty == 'Range':
        return v
    if t is MapV:
        return MapEntryIter(v.f, 'owned' if not inner_is_set(v) else 'owned_keys')
    if t is Enum and v.ty in ('Option',):
        return ListIter([v.f[0]] if v.v == 1 else [])
    if t is Enum and v.ty in ('Result',):
        return ListIter([v.f[0]] if v.v == 0 else [])
    raise Unsupported('into_iter of %r' % (v,))


def inner_is_set(m):
    return getattr(m, 'ordered', False) == 'set' or (m.f and m.f[0][1] is SETMARK) or getattr(m, 'is_set', False)


SETMARK = ()


def drain(eng, it, limit=100000):
    out = []
    while True:
        v = iter_next(eng, it)
        if v is END:
            return out
        out.append(v)
        if len(out) > limit:
            raise Unsupported('iterator too long')


# ----------------------------------------------------------------------------- Iterator trait models

@model('IntoIterator::into_iter')
def _(eng, ci, a, dt):
    v = a[0]
    if type(v) is Agg and v.ty == 'Range':
        rt = range_type(ci)
        if rt:
            RANGE_SIGNED_W[id(v)] = rt
            RANGE_SIGNED[id(v)] = rt[1]
    return into_iter(eng, v)


@model('Iterator::next')
def _(eng, ci, a, dt):
    it = a[0].get() if type(a[0]) is Ref else a[0]
    if type(it) is Agg and it.ty == 'Range':
        rt = range_type(ci) or range_infer(it)
        v = range_next(eng, it, rt[0], rt[1])
    else:
        v = iter_next(eng, it)
    return none() if v is END else some(v)


@model('DoubleEndedIterator::next_back')
def _(eng, ci, a, dt):
    it = a[0].get() if type(a[0]) is Ref else a[0]
    if type(it) is Agg and it.ty == 'Range':
        rt = range_type(ci) or range_infer(it)
        v = range_next(eng, it, rt[0], rt[1], back=True)
    else:
        v = iter_next_back(eng, it)
    return none() if v is END else some(v)


def _src(eng, ci, v):
    """the iterator behind a by-value or by-&mut self argument"""
    if type(v) is Ref:
        v = v.get()
    if type(v) is Agg and v.ty == 'Range':
        rt = range_type(ci)
        if rt:
            RANGE_SIGNED_W[id(v)] = rt
            RANGE_SIGNED[id(v)] = rt[1]
    return v


def _adapter(kind, has_f=True, has_extra=False):
    def m(eng, ci, a, dt):
        inner = _src(eng, ci, a[0])
        f = a[1] if has_f else None
        extra = None
        if has_extra:
            extra = a[1]
            f = None
        return Adapter(kind, inner, f, extra)
    return m


for _k in ('map', 'filter', 'filter_map', 'take_while', 'skip_while', 'map_while', 'flat_map', 'inspect'):
    MODELS['Iterator::' + _k] = _adapter(_k)
for _k in ('copied', 'cloned', 'enumerate', 'rev', 'peekable', 'flatten', 'fuse'):
    MODELS['Iterator::' + _k] = _adapter(_k, has_f=False)


@model('Iterator::skip', 'Iterator::take', 'Iterator::step_by')
def _(eng, ci, a, dt):
    n = eng.concretize(a[1], range(0, 64), 'skip/take count')
    return Adapter(ci.method, _src(eng, ci, a[0]), None, n)


@model('Iterator::zip', 'Iterator::chain')
def _(eng, ci, a, dt):
    return Adapter(ci.method, _src(eng, ci, a[0]), None, into_iter(eng, _src(eng, ci, a[1])))


@model('Iterator::scan')
def _(eng, ci, a, dt):
    return Adapter('scan', _src(eng, ci, a[0]), a[2], [a[1]])


@model('Iterator::by_ref')
def _(eng, ci, a, dt):
    return a[0]


@model('Peekable::peek', 'Peekable::peek_mut')
def _(eng, ci, a, dt):
    it = a[0].get()
    if it.peeked is None:
        it.peeked = iter_next(eng, it.inner)
    if it.peeked is END:
        return none()
    cell = [it.peeked]
    it.peeked_cell = cell
    return some(Ref(cell, 0))


@model('Peekable::next_if', 'Peekable::next_if_eq')
def _(eng, ci, a, dt):
    it = a[0].get()
    if it.peeked is None:
        it.peeked = iter_next(eng, it.inner)
    if it.peeked is END:
        return none()
    if ci.method == 'next_if':
        okk = eng.truth(call_closure(eng, a[1], [Ref([it.peeked], 0)]))
    else:
        okk = eng.truth(value_eq(eng, it.peeked, a[1]))
    if okk:
        v = it.peeked
        it.peeked = None
        return some(v)
    return none()


def collect_into(eng, items, dt, ci):
    from .interp import type_head
    h = type_head(dt) if dt else None
    if h is None or h in ('?',):
        g = ci.generics[0] if ci.generics else ''
        h = type_head(g) if g else 'Vec'
    if h in ('Vec', 'VecDeque', 'Box'):
        return VecV(items)
    if h == 'String':
        out = []
        for c in items:
            push_char_or_str(eng, out, c)
        return StrV(out)
    if h in ('HashMap', 'BTreeMap'):
        from .mmap import map_insert
        m = MapV([], h == 'BTreeMap')
        for kv in items:
            map_insert(eng, m, kv.f[0], kv.f[1])
        return m
    if h in ('HashSet', 'BTreeSet'):
        from .mmap import map_insert
        m = MapV([], h == 'BTreeSet')
        m_is_set(m)
        for k in items:
            map_insert(eng, m, k, SETMARK)
        return m
    if h == 'Result':
        out = []
        for r in items:
            if r.v == 1:
                return r
            out.append(r.f[0])
        inner = split_top(dt[dt.index('<') + 1:-1])[0]
        return ok(collect_into(eng, out, inner, ci))
    if h == 'Option':
        out = []
        for r in items:
            if r.v == 0:
                return r
            out.append(r.f[0])
        inner = split_top(dt[dt.index('<') + 1:-1])[0]
        return some(collect_into(eng, out, inner, ci))
    raise Unsupported('collect into %s' % dt)


def m_is_set(m):
    pass


def push_char_or_str(eng, out, c):
    if type(c) is Ref:
        v = c.get()
        if type(v) is int or is_sym(v):
            c = v            # &char (e.g. `chars.iter().collect::<String>()`)
    t = type(c)
    if t is int:
        out.extend(chr(c).encode('utf-8'))
    elif is_sym(c):
        if c.size() == 32:
            eng.require_ascii_char(c)
            out.append(z3.Extract(7, 0, c))
        else:
            out.append(c)
    else:
        out.extend(str_bytes(c))


@model('Iterator::collect', 'FromIterator::from_iter')
def _(eng, ci, a, dt):
    items = drain(eng, into_iter(eng, _src(eng, ci, a[0])))
    if ci.method == 'from_iter' and ci.self_ty:
        dt = ci.self_ty
    return collect_into(eng, items, dt, ci)


@model('Iterator::count')
def _(eng, ci, a, dt):
    return len(drain(eng, _src(eng, ci, a[0])))


@model('Iterator::last')
def _(eng, ci, a, dt):
    xs = drain(eng, _src(eng, ci, a[0]))
    return some(xs[-1]) if xs else none()


@model('Iterator::nth')
def _(eng, ci, a, dt):
    it = _src(eng, ci, a[0])
    n = eng.concretize(a[1], range(0, 64), 'nth')
    v = END
    for _ in range(n + 1):
        v = iter_next(eng, it)
        if v is END:
            return none()
    return some(v)


@model('Iterator::for_each')
def _(eng, ci, a, dt):
    it = _src(eng, ci, a[0])
    while True:
        v = iter_next(eng, it)
        if v is END:
            return UNIT
        call_closure(eng, a[1], [v])


@model('Iterator::fold')
def _(eng, ci, a, dt):
    it = _src(eng, ci, a[0])
    acc = a[1]
    while True:
        v = iter_next(eng, it)
        if v is END:
            return acc
        acc = call_closure(eng, a[2], [acc, v])


@model('Iterator::any')
def _(eng, ci, a, dt):
    it = _src(eng, ci, a[0])
    while True:
        v = iter_next(eng, it)
        if v is END:
            return False
        if eng.truth(call_closure(eng, a[1], [v])):
            return True


@model('Iterator::all')
def _(eng, ci, a, dt):
    it = _src(eng, ci, a[0])
    while True:
        v = iter_next(eng, it)
        if v is END:
            return True
        if not eng.truth(call_closure(eng, a[1], [v])):
            return False


@model('Iterator::find')
def _(eng, ci, a, dt):
    it = _src(eng, ci, a[0])
    while True:
        v = iter_next(eng, it)
        if v is END:
            return none()
        if eng.truth(call_closure(eng, a[1], [Ref([v], 0)])):
            return some(v)


@model('Iterator::find_map')
def _(eng, ci, a, dt):
    it = _src(eng, ci, a[0])
    while True:
        v = iter_next(eng, it)
        if v is END:
            return none()
        r = call_closure(eng, a[1], [v])
        if r.v == 1:
            return r


@model('Iterator::position')
def _(eng, ci, a, dt):
    it = _src(eng, ci, a[0])
    i = 0
    while True:
        v = iter_next(eng, it)
        if v is END:
            return none()
        if eng.truth(call_closure(eng, a[1], [v])):
            return some(i)
        i += 1


@model('DoubleEndedIterator::rposition', 'Iterator::rposition')
def _(eng, ci, a, dt):
    it = _src(eng, ci, a[0])
    n = it.size_hint_exact()
    if n is None:
        raise Unsupported('rposition without exact size')
    i = n
    while True:
        v = iter_next_back(eng, it)
        if v is END:
            return none()
        i -= 1
        if eng.truth(call_closure(eng, a[1], [v])):
            return some(i)


@model('DoubleEndedIterator::rfind')
def _(eng, ci, a, dt):
    it = _src(eng, ci, a[0])
    while True:
        v = iter_next_back(eng, it)
        if v is END:
            return none()
        if eng.truth(call_closure(eng, a[1], [Ref([v], 0)])):
            return some(v)


@model('Iterator::sum', 'Iterator::product')
def _(eng, ci, a, dt):
    xs = drain(eng, _src(eng, ci, a[0]))
    ty = (ci.generics[0] if ci.generics else dt) or dt
    ty = (ty or '').strip()
    add = ci.method == 'sum'
    if ty in INT_TYPES:
        w, s = INT_TYPES[ty]
        acc = 0 if add else 1
        for x in xs:
            x = deref1(x)
            r = ops.int_binop('AddWithOverflow' if add else 'MulWithOverflow', acc, x, w, s)
            if eng.truth(r.f[1]):
                panic(eng, 'attempt to add with overflow', 'overflow')
            acc = r.f[0]
        return acc
    if ty == 'f64':
        acc = -0.0 if add else 1.0
        for x in xs:
            acc = ops.float_binop('Add' if add else 'Mul', acc, deref1(x))
        return acc
    raise Unsupported('sum over %s' % ty)


def _minmax(eng, ci, xs, want_max, keyf=None, cmpf=None):
    if not xs:
        return none()
    best = xs[0]
    bk = call_closure(eng, keyf, [Ref([best], 0)]) if keyf else best
    for x in xs[1:]:
        k = call_closure(eng, keyf, [Ref([x], 0)]) if keyf else x
        if cmpf:
            r = call_closure(eng, cmpf, [Ref([bk], 0), Ref([k], 0)]).v - 1
        else:
            r = compare_values(eng, ci, bk, k)
        # max: last max wins (r <= 0 -> take x); min: first min wins (r > 0 -> take x)
        if (want_max and r <= 0) or (not want_max and r > 0):
            best, bk = x, k
    return some(best)


@model('Iterator::max', 'Iterator::min')
def _(eng, ci, a, dt):
    return _minmax(eng, _elem_ci(ci, dt), drain(eng, _src(eng, ci, a[0])), ci.method == 'max')


@model('Iterator::max_by_key', 'Iterator::min_by_key')
def _(eng, ci, a, dt):
    return _minmax(eng, _elem_ci(ci, dt), drain(eng, _src(eng, ci, a[0])), ci.method.startswith('max'), keyf=a[1])


@model('Iterator::max_by', 'Iterator::min_by')
def _(eng, ci, a, dt):
    return _minmax(eng, ci, drain(eng, _src(eng, ci, a[0])), ci.method.startswith('max'), cmpf=a[1])


class _CI:
    pass


def _elem_ci(ci, dt):
    """CallInfo-like carrying the element type for comparisons (from Option<T> dest type / generics)"""
    c = _CI()
    c.text = ci.text
    c.impl_ty = None
    c.generics = list(ci.generics)
    c.self_ty = None
    if dt and '<' in dt:
        c.generics.append(dt[dt.index('<') + 1:-1].strip())
    import re
    m = re.search(r'Item = &?([a-z0-9]+)', ci.text) or re.search(r"Iter<'_, ([a-z0-9]+)>", ci.text) or \
        re.search(r'IntoIter<([a-z0-9]+)>', ci.text)
    if m:
        c.generics.append(m.group(1))
    return c


@model('Iterator::size_hint', 'ExactSizeIterator::len')
def _(eng, ci, a, dt):
    it = deref1(a[0])
    n = it.size_hint_exact() if isinstance(it, It) else None
    if n is None:
        raise Unsupported('size_hint of %r' % (it,))
    if ci.method == 'len':
        return n
    return Agg([n, some(n)], 'tuple')


@model('Iterator::unzip')
def _(eng, ci, a, dt):
    xs = drain(eng, _src(eng, ci, a[0]))
    return Agg([VecV([x.f[0] for x in xs]), VecV([x.f[1] for x in xs])], 'tuple')


@model('Iterator::partition')
def _(eng, ci, a, dt):
    xs = drain(eng, _src(eng, ci, a[0]))
    t, f = [], []
    for x in xs:
        (t if eng.truth(call_closure(eng, a[1], [Ref([x], 0)])) else f).append(x)
    return Agg([VecV(t), VecV(f)], 'tuple')


@model('Iterator::eq')
def _(eng, ci, a, dt):
    xs = drain(eng, _src(eng, ci, a[0]))
    ys = drain(eng, into_iter(eng, _src(eng, ci, a[1])))
    if len(xs) != len(ys):
        return False
    acc = True
    for x, y in zip(xs, ys):
        acc = bool_and(acc, value_eq(eng, x, y))
    return acc


@model('Iterator::try_fold', 'Iterator::try_for_each')
def _(eng, ci, a, dt):
    raise Unsupported('try_fold')


# ----------------------------------------------------------------------------- Vec

@model('Vec::new', 'VecDeque::new')
def _(eng, ci, a, dt):
    return VecV([])


@model('Vec::with_capacity', 'VecDeque::with_capacity')
def _(eng, ci, a, dt):
    return VecV([])


@model('Vec::len', 'slice::len', 'VecDeque::len', 'array::len')
def _(eng, ci, a, dt):
    lst, lo, hi = seq_items(a[0])
    return hi - lo


@model('Vec::is_empty', 'slice::is_empty', 'VecDeque::is_empty')
def _(eng, ci, a, dt):
    lst, lo, hi = seq_items(a[0])
    return hi == lo


@model('Vec::capacity')
def _(eng, ci, a, dt):
    return len(deref(a[0]).f)


@model('Vec::reserve', 'Vec::shrink_to_fit', 'Vec::reserve_exact', 'String::reserve', 'String::shrink_to_fit')
def _(eng, ci, a, dt):
    return UNIT


@model('Vec::push', 'VecDeque::push_back')
def _(eng, ci, a, dt):
    deref(a[0]).f.append(a[1])
    return UNIT


@model('VecDeque::push_front')
def _(eng, ci, a, dt):
    deref(a[0]).f.insert(0, a[1])
    return UNIT


@model('Vec::pop', 'VecDeque::pop_back')
def _(eng, ci, a, dt):
    f = deref(a[0]).f
    return some(f.pop()) if f else none()


@model('VecDeque::pop_front')
def _(eng, ci, a, dt):
    f = deref(a[0]).f
    return some(f.pop(0)) if f else none()


@model('Vec::clear', 'VecDeque::clear')
def _(eng, ci, a, dt):
    del deref(a[0]).f[:]
    return UNIT


@model('Vec::truncate')
def _(eng, ci, a, dt):
    f = deref(a[0]).f
    n = eng.concretize(a[1], range(len(f) + 1), 'truncate')
    del f[n:]
    return UNIT


@model('Vec::insert')
def _(eng, ci, a, dt):
    f = deref(a[0]).f
    i = a[1]
    if is_sym(i):
        if eng.truth(ops.int_binop('Gt', i, len(f), 64, False)):
            panic(eng, 'insertion index out of bounds', 'bounds')
        i = eng.concretize(i, range(len(f) + 1), 'insert index')
    elif i > len(f):
        panic(eng, 'insertion index out of bounds', 'bounds')
    f.insert(i, a[2])
    return UNIT


@model('Vec::remove', 'Vec::swap_remove')
def _(eng, ci, a, dt):
    f = deref(a[0]).f
    i = a[1]
    if is_sym(i):
        if eng.truth(ops.int_binop('Ge', i, len(f), 64, False)):
            panic(eng, 'removal index out of bounds', 'bounds')
        i = eng.concretize(i, range(len(f)), 'remove index')
    elif i >= len(f):
        panic(eng, 'removal index out of bounds', 'bounds')
    if ci.method == 'swap_remove':
        v = f[i]
        f[i] = f[-1]
        f.pop()
        return v
    return f.pop(i)


@model('Vec::extend_from_slice', 'Vec::append')
def _(eng, ci, a, dt):
    f = deref(a[0]).f
    if ci.method == 'append':
        o = deref(a[1])
        f.extend(o.f)
        o.f = []
        return UNIT
    lst, lo, hi = seq_items(a[1])
    f.extend(copy_value(x) for x in lst[lo:hi])
    return UNIT


@model('Extend::extend')
def _(eng, ci, a, dt):
    tgt = deref(a[0])
    items = drain(eng, into_iter(eng, a[1]))
    if type(tgt) is VecV:
        tgt.f.extend(deref1(x) if False else x for x in items)
        return UNIT
    if type(tgt) is StrV:
        out = tgt.f
        for c in items:
            push_char_or_str(eng, out, deref1(c))
        return UNIT
    if type(tgt) is MapV:
        from .mmap import map_insert
        for kv in items:
            if type(kv) is Agg:
                map_insert(eng, tgt, kv.f[0], kv.f[1])
            else:
                map_insert(eng, tgt, kv, SETMARK)
        return UNIT
    raise Unsupported('extend on %r' % (tgt,))


@model('Vec::retain', 'Vec::retain_mut')
def _(eng, ci, a, dt):
    v = deref(a[0])
    keep = []
    for i in range(len(v.f)):
        if eng.truth(call_closure(eng, a[1], [Ref(v.f, i)])):
            keep.append(v.f[i])
    v.f[:] = keep
    return UNIT


@model('Vec::dedup')
def _(eng, ci, a, dt):
    v = deref(a[0])
    out = []
    for x in v.f:
        if out and eng.truth(value_eq(eng, out[-1], x)):
            continue
        out.append(x)
    v.f[:] = out
    return UNIT


@model('Vec::drain')
def _(eng, ci, a, dt):
    v = deref(a[0])
    lo, hi = range_bounds(eng, a[1], len(v.f))
    items = v.f[lo:hi]
    del v.f[lo:hi]
    return ListIter(items)


@model('Vec::split_off')
def _(eng, ci, a, dt):
    v = deref(a[0])
    n = eng.concretize(a[1], range(len(v.f) + 1), 'split_off')
    tail = v.f[n:]
    del v.f[n:]
    return VecV(tail)


@model('Vec::resize')
def _(eng, ci, a, dt):
    v = deref(a[0])
    n = eng.concretize(a[1], range(0, 65), 'resize')
    while len(v.f) < n:
        v.f.append(copy_value(a[2]))
    del v.f[n:]
    return UNIT


@model('vec::from_elem')
def _(eng, ci, a, dt):
    n = eng.concretize(a[1], range(0, 65), 'vec![x; n]')
    return VecV([copy_value(a[0]) for _ in range(n)])


@model('Vec::as_slice', 'Vec::as_mut_slice', 'Deref::deref@Vec', 'DerefMut::deref_mut@Vec', 'AsRef::as_ref@Vec',
       'array::as_slice', 'Borrow::borrow@Vec', 'array::as_mut_slice')
def _(eng, ci, a, dt):
    lst, lo, hi = seq_items(a[0])
    return Slice(lst, lo, hi, False)


@model('Vec::into_boxed_slice')
def _(eng, ci, a, dt):
    return BoxV(Agg(a[0].f, 'array'))


@model('Vec::iter', 'slice::iter', 'slice::iter_mut', 'Vec::iter_mut', 'VecDeque::iter', 'array::iter')
def _(eng, ci, a, dt):
    lst, lo, hi = seq_items(a[0])
    return SliceIter(lst, lo, hi)


@model('Vec::first', 'slice::first', 'slice::first_mut')
def _(eng, ci, a, dt):
    lst, lo, hi = seq_items(a[0])
    return some(Ref(lst, lo)) if hi > lo else none()


@model('Vec::last', 'slice::last', 'slice::last_mut')
def _(eng, ci, a, dt):
    lst, lo, hi = seq_items(a[0])
    return some(Ref(lst, hi - 1)) if hi > lo else none()


def range_bounds(eng, r, n):
    """Range-like value -> concrete (lo, hi) within 0..n (panics modelled by caller as None)"""
    r = deref1(r)
    if isinstance(r, RangeIncl):
        lo = eng.concretize(r.lo, range(n + 1), 'range start')
        hi = eng.concretize(r.hi, range(-1, n + 1), 'range end') + 1
        return lo, hi
    if type(r) is Agg:
        ty = r.ty
        if ty == 'Range':
            lo = eng.concretize(r.f[0], range(n + 2), 'range start')
            hi = eng.concretize(r.f[1], range(n + 2), 'range end')
            return lo, hi
        if ty == 'RangeFrom':
            return eng.concretize(r.f[0], range(n + 2), 'range start'), n
        if ty == 'RangeTo':
            return 0, eng.concretize(r.f[0], range(n + 2), 'range end')
        if ty == 'RangeToInclusive':
            return 0, eng.concretize(r.f[0], range(n + 1), 'range end') + 1
        if ty == 'RangeFull':
            return 0, n
    raise Unsupported('range_bounds of %r' % (r,))


def index_value(eng, ci, a, checked):
    """slice/Vec/str get / index"""
    base = a[0]
    idx = a[1]
    lst, lo, hi = seq_items(base)
    n = hi - lo
    is_str = (type(deref1(base)) is StrV) or (type(deref1(base)) is Slice and deref1(base).is_str) or \
             (type(base) is Slice and base.is_str)
    t = type(idx)
    if t is int or is_sym(idx):
        if is_sym(idx):
            inb = eng.truth(ops.int_binop('Lt', idx, n, 64, False))
            if not inb:
                if checked:
                    return none()
                panic(eng, 'index out of bounds', 'bounds')
            idx = eng.concretize(idx, range(n), 'index')
        elif not (0 <= idx < n):
            if checked:
                return none()
            panic(eng, 'index out of bounds: the len is %d but the index is %d' % (n, idx), 'bounds')
        r = Ref(lst, lo + idx)
        return some(r) if checked else r
    # range index
    try:
        a_, b_ = range_bounds_checked(eng, idx, n)
    except IndexError:
        if checked:
            return none()
        panic(eng, 'range index out of bounds', 'bounds')
    if is_str:
        for p in (a_, b_):
            if 0 < p < n:
                b = lst[lo + p]
                if not is_sym(b) and (b & 0xc0) == 0x80:
                    if checked:
                        return none()
                    panic(eng, 'byte index is not a char boundary', 'bounds')
    r = Slice(lst, lo + a_, lo + b_, is_str)
    return some(r) if checked else r


def range_bounds_checked(eng, r, n):
    r = deref1(r)

    def conc(v, what):
        if is_sym(v):
            if eng.truth(ops.int_binop('Gt', v, n, 64, False)):
                raise IndexError()
            return eng.concretize(v, range(n + 1), what)
        return v
    if isinstance(r, RangeIncl):
        lo = conc(r.lo, 'range start')
        hi = r.hi
        if is_sym(hi):
            if eng.truth(ops.int_binop('Ge', hi, n, 64, False)):
                raise IndexError()
            hi = eng.concretize(hi, range(n), 'range end')
        hi = hi + 1
    elif type(r) is Agg and r.ty == 'Range':
        lo, hi = conc(r.f[0], 'range start'), conc(r.f[1], 'range end')
    elif type(r) is Agg and r.ty == 'RangeFrom':
        lo, hi = conc(r.f[0], 'range start'), n
    elif type(r) is Agg and r.ty == 'RangeTo':
        lo, hi = 0, conc(r.f[0], 'range end')
    elif type(r) is Agg and r.ty == 'RangeToInclusive':
        lo, hi = 0, conc(r.f[0], 'range end') + 1
    elif type(r) is Agg and r.ty == 'RangeFull':
        lo, hi = 0, n
    else:
        raise Unsupported('index by %r' % (r,))
    if lo > hi or hi > n:
        raise IndexError()
    return lo, hi


@model('Index::index', 'IndexMut::index_mut')
def _(eng, ci, a, dt):
    base = deref1(a[0])
    if type(base) is MapV:
        from .mmap import map_find
        e = map_find(eng, base, a[1])
        if e is None:
            panic(eng, 'key not found in map', 'bounds')
        return Ref(e, 1)
    return index_value(eng, ci, a, False)


@model('slice::get', 'slice::get_mut', 'Vec::get', 'Vec::get_mut', 'str::get', 'VecDeque::get')
def _(eng, ci, a, dt):
    return index_value(eng, ci, a, True)


@model('slice::get_unchecked', 'slice::get_unchecked_mut', 'str::get_unchecked')
def _(eng, ci, a, dt):
    return index_value(eng, ci, a, False)


@model('slice::contains', 'Vec::contains')
def _(eng, ci, a, dt):
    lst, lo, hi = seq_items(a[0])
    acc = False
    for x in lst[lo:hi]:
        acc = bool_or(acc, value_eq(eng, x, a[1]))
        if acc is True:
            return True
    return acc


@model('slice::to_vec', 'slice::to_owned')
def _(eng, ci, a, dt):
    lst, lo, hi = seq_items(a[0])
    return VecV([copy_value(x) for x in lst[lo:hi]])


@model('slice::reverse')
def _(eng, ci, a, dt):
    lst, lo, hi = seq_items(a[0])
    lst[lo:hi] = lst[lo:hi][::-1]
    return UNIT


@model('slice::swap')
def _(eng, ci, a, dt):
    lst, lo, hi = seq_items(a[0])
    i = eng.concretize(a[1], range(hi - lo), 'swap')
    j = eng.concretize(a[2], range(hi - lo), 'swap')
    lst[lo + i], lst[lo + j] = lst[lo + j], lst[lo + i]
    return UNIT


@model('slice::split_at', 'slice::split_at_mut')
def _(eng, ci, a, dt):
    lst, lo, hi = seq_items(a[0])
    m = eng.concretize(a[1], range(hi - lo + 1), 'split_at')
    return Agg([Slice(lst, lo, lo + m), Slice(lst, lo + m, hi)], 'tuple')


@model('slice::split_first', 'slice::split_last')
def _(eng, ci, a, dt):
    lst, lo, hi = seq_items(a[0])
    if hi == lo:
        return none()
    if ci.method == 'split_first':
        return some(Agg([Ref(lst, lo), Slice(lst, lo + 1, hi)], 'tuple'))
    return some(Agg([Ref(lst, hi - 1), Slice(lst, lo, hi - 1)], 'tuple'))


@model('slice::concat', 'slice::join', 'Join::join', 'Concat::concat')
def _(eng, ci, a, dt):
    lst, lo, hi = seq_items(a[0])
    items = lst[lo:hi]
    sep = a[1] if len(a) > 1 else None
    if not items:
        return StrV([]) if (dt and 'String' in dt) else VecV([])
    first = deref(items[0])
    if type(first) in (StrV, Slice) and (type(first) is StrV or first.is_str):
        out = []
        sb = str_bytes(sep) if sep is not None else []
        for i, s in enumerate(items):
            if i:
                out.extend(sb)
            out.extend(str_bytes(s))
        return StrV(out)
    out = []
    for i, s in enumerate(items):
        if i and sep is not None:
            l2, a2, b2 = seq_items(sep)
            out.extend(copy_value(x) for x in l2[a2:b2])
        l2, a2, b2 = seq_items(s)
        out.extend(copy_value(x) for x in l2[a2:b2])
    return VecV(out)


def sort_list(eng, items, lt):
    """insertion sort with forking comparisons (stable)"""
    out = []
    for x in items:
        i = len(out)
        while i > 0 and lt(x, out[i - 1]):
            i -= 1
        out.insert(i, x)
    return out


@model('slice::sort', 'slice::sort_unstable')
def _(eng, ci, a, dt):
    lst, lo, hi = seq_items(a[0])
    import re
    eci = _CI()
    eci.text = ci.text
    eci.impl_ty = None
    eci.self_ty = None
    m = re.search(r'<impl \[(.*)\]>', ci.text)
    eci.generics = [m.group(1)] if m else []
    lst[lo:hi] = sort_list(eng, lst[lo:hi], lambda x, y: compare_values(eng, eci, x, y) < 0)
    return UNIT


@model('slice::sort_by', 'slice::sort_unstable_by')
def _(eng, ci, a, dt):
    lst, lo, hi = seq_items(a[0])
    lst[lo:hi] = sort_list(eng, lst[lo:hi],
                           lambda x, y: call_closure(eng, a[1], [Ref([x], 0), Ref([y], 0)]).v == 0)
    return UNIT


@model('slice::sort_by_key', 'slice::sort_unstable_by_key', 'slice::sort_by_cached_key')
def _(eng, ci, a, dt):
    lst, lo, hi = seq_items(a[0])
    eci = _CI()
    eci.text = ci.text
    eci.impl_ty = None
    eci.self_ty = None
    eci.generics = list(ci.generics)
    keyed = [(call_closure(eng, a[1], [Ref([x], 0)]), x) for x in lst[lo:hi]]
    srt = sort_list(eng, keyed, lambda p, q: compare_values(eng, eci, p[0], q[0]) < 0)
    lst[lo:hi] = [x for _, x in srt]
    return UNIT


@model('slice::binary_search', 'slice::binary_search_by', 'slice::binary_search_by_key')
def _(eng, ci, a, dt):
    raise Unsupported('binary_search')


@model('slice::starts_with', 'slice::ends_with')
def _(eng, ci, a, dt):
    lst, lo, hi = seq_items(a[0])
    l2, lo2, hi2 = seq_items(a[1])
    n = hi2 - lo2
    if n > hi - lo:
        return False
    xs = lst[lo:lo + n] if ci.method == 'starts_with' else lst[hi - n:hi]
    acc = True
    for x, y in zip(xs, l2[lo2:hi2]):
        acc = bool_and(acc, value_eq(eng, x, y))
    return acc


@model('slice::chunks', 'slice::windows', 'slice::chunks_exact')
def _(eng, ci, a, dt):
    lst, lo, hi = seq_items(a[0])
    n = eng.concretize(a[1], range(1, 65), 'chunk size')
    out = []
    if ci.method == 'windows':
        for i in range(lo, hi - n + 1):
            out.append(Slice(lst, i, i + n))
    else:
        i = lo
        while i < hi:
            if ci.method == 'chunks_exact' and i + n > hi:
                break
            out.append(Slice(lst, i, min(hi, i + n)))
            i += n
    return ListIter(out)


@model('slice::fill')
def _(eng, ci, a, dt):
    lst, lo, hi = seq_items(a[0])
    for i in range(lo, hi):
        lst[i] = copy_value(a[1])
    return UNIT


@model('slice::copy_from_slice', 'slice::clone_from_slice')
def _(eng, ci, a, dt):
    lst, lo, hi = seq_items(a[0])
    l2, lo2, hi2 = seq_items(a[1])
    if hi - lo != hi2 - lo2:
        panic(eng, 'source slice length does not match destination', 'bounds')
    lst[lo:hi] = [copy_value(x) for x in l2[lo2:hi2]]
    return UNIT


@model('slice::iter().position')
def _(eng, ci, a, dt):
    raise Unsupported('x')


@model('RangeInclusive::new')
def _(eng, ci, a, dt):
    import re
    w, s = 64, False
    m = re.search(r'RangeInclusive::<([a-z0-9]+)>', ci.text)
    if m and m.group(1) in INT_TYPES:
        w, s = INT_TYPES[m.group(1)]
    return RangeIncl(a[0], a[1], w, s)


@model('RangeInclusive::start', 'RangeInclusive::end')
def _(eng, ci, a, dt):
    r = deref1(a[0])
    cell = [r.lo if ci.method == 'start' else r.hi]
    return Ref(cell, 0)


@model('RangeInclusive::contains', 'Range::contains', 'RangeBounds::contains')
def _(eng, ci, a, dt):
    r = deref1(a[0])
    x = deref1(a[1])
    import re
    m = re.search(r'Range(?:Inclusive)?::?<([a-z0-9]+)>', ci.text)
    ty = m.group(1) if m else (ci.generics[0].lstrip('&') if ci.generics else None)
    if ty == 'f64':
        lo, hi = (r.lo, r.hi) if isinstance(r, RangeIncl) else (r.f[0], r.f[1])
        return bool_and(ops.float_binop('Ge', x, lo), ops.float_binop('Le' if isinstance(r, RangeIncl) else 'Lt', x, hi))
    if ty in INT_TYPES:
        w, s = INT_TYPES[ty]
    elif isinstance(r, RangeIncl):
        w, s = r.w, r.signed
    else:
        raise Unsupported('Range::contains type in %s' % ci.text)
    if isinstance(r, RangeIncl):
        return bool_and(ops.int_binop('Ge', x, r.lo, w, s), ops.int_binop('Le', x, r.hi, w, s))
    if type(r) is not Agg or len(r.f) < 2:
        raise Unsupported('Range::contains on %r' % (r,))
    if 'RangeInclusive' in ci.text:
        return bool_and(ops.int_binop('Ge', x, r.f[0], w, s), ops.int_binop('Le', x, r.f[1], w, s))
    return bool_and(ops.int_binop('Ge', x, r.f[0], w, s), ops.int_binop('Lt', x, r.f[1], w, s))


@model('Range::is_empty')
def _(eng, ci, a, dt):
    r = deref1(a[0])
    rt = range_type(ci) or range_infer(r)
    return ops.int_binop('Ge', r.f[0], r.f[1], rt[0], rt[1])


@model('Range::len', 'ExactSizeIterator::len@Range')
def _(eng, ci, a, dt):
    r = deref1(a[0])
    rt = range_type(ci) or range_infer(r)
    if eng.truth(ops.int_binop('Ge', r.f[0], r.f[1], rt[0], rt[1])):
        return 0
    return ops.int_binop('Sub', r.f[1], r.f[0], 64, False)
