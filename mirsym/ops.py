"""Scalar semantics: wrapping machine integers, IEEE doubles, bools.  Concrete values stay
python values; anything touching a solver term becomes a z3 term of the declared width."""
import math, struct
import z3
from .mirparse import INT_TYPES, Unsupported
from .values import Agg, Enum

RNE = z3.RNE()
F64 = z3.Float64()
F32 = z3.Float32()


def is_sym(v):
    return isinstance(v, z3.ExprRef)


def norm_int(v, w, signed):
    v &= (1 << w) - 1
    if signed and v >> (w - 1):
        v -= 1 << w
    return v


def to_bv(v, w):
    if isinstance(v, z3.ExprRef):
        if z3.is_bool(v):
            return z3.If(v, z3.BitVecVal(1, w), z3.BitVecVal(0, w))
        return v
    if v is True:
        v = 1
    elif v is False:
        v = 0
    return z3.BitVecVal(v & ((1 << w) - 1), w)


def to_bool(v):
    if isinstance(v, z3.ExprRef):
        if z3.is_bool(v):
            return v
        return v != 0
    return bool(v)


def to_fp(v, sort=F64):
    if isinstance(v, z3.ExprRef):
        return v
    return z3.FPVal(v, sort)


def bool_not(a):
    if a is True:
        return False
    if a is False:
        return True
    return z3.Not(a)


def bool_and(a, b):
    if a is False or b is False:
        return False
    if a is True:
        return b
    if b is True:
        return a
    return z3.And(a, b)


def bool_or(a, b):
    if a is True or b is True:
        return True
    if a is False:
        return b
    if b is False:
        return a
    return z3.Or(a, b)


def bool_ite(c, a, b):
    if c is True:
        return a
    if c is False:
        return b
    return z3.If(c, to_any(a, b), to_any(b, a))


def to_any(a, like):
    """lift python scalar a to a z3 term compatible with `like`"""
    if isinstance(a, z3.ExprRef):
        return a
    if isinstance(like, z3.ExprRef):
        s = like.sort()
        if s.kind() == z3.Z3_BV_SORT:
            return z3.BitVecVal(a & ((1 << s.size()) - 1), s.size())
        if s.kind() == z3.Z3_BOOL_SORT:
            return z3.BoolVal(bool(a))
        if s.kind() == z3.Z3_FLOATING_POINT_SORT:
            return z3.FPVal(a, s)
    if isinstance(a, bool):
        return z3.BoolVal(a)
    raise Unsupported('to_any: cannot lift %r' % (a,))


def py_div_trunc(a, b):
    q = abs(a) // abs(b)
    return q if (a < 0) == (b < 0) else -q


def int_binop(op, a, b, w, signed):
    """a, b: python ints (already normalized for the type) or z3 BV terms of width w"""
    sa, sb = isinstance(a, z3.ExprRef), isinstance(b, z3.ExprRef)
    if not sa and not sb:
        if a is True or a is False:
            a = int(a)
        if b is True or b is False:
            b = int(b)
        if op in ('Add', 'AddUnchecked'):
            return norm_int(a + b, w, signed)
        if op in ('Sub', 'SubUnchecked'):
            return norm_int(a - b, w, signed)
        if op in ('Mul', 'MulUnchecked'):
            return norm_int(a * b, w, signed)
        if op == 'Div':
            if b == 0:
                raise Unsupported('concrete division by zero reached Div')
            return norm_int(py_div_trunc(a, b), w, signed)
        if op == 'Rem':
            if b == 0:
                raise Unsupported('concrete division by zero reached Rem')
            return norm_int(a - b * py_div_trunc(a, b), w, signed)
        if op == 'BitAnd':
            return norm_int(a & b, w, signed)
        if op == 'BitOr':
            return norm_int(a | b, w, signed)
        if op == 'BitXor':
            return norm_int(a ^ b, w, signed)
        if op in ('Shl', 'ShlUnchecked'):
            return norm_int(a << (b % w), w, signed)
        if op in ('Shr', 'ShrUnchecked'):
            return norm_int(a >> (b % w), w, signed)   # python >> on negative = arithmetic
        if op == 'Eq':
            return a == b
        if op == 'Ne':
            return a != b
        if op == 'Lt':
            return a < b
        if op == 'Le':
            return a <= b
        if op == 'Gt':
            return a > b
        if op == 'Ge':
            return a >= b
        if op == 'AddWithOverflow':
            r = a + b
            n = norm_int(r, w, signed)
            return Agg([n, n != r])
        if op == 'SubWithOverflow':
            r = a - b
            n = norm_int(r, w, signed)
            return Agg([n, n != r])
        if op == 'MulWithOverflow':
            r = a * b
            n = norm_int(r, w, signed)
            return Agg([n, n != r])
        raise Unsupported('int binop ' + op)
    # shifts: rhs may have another width
    if op in ('Shl', 'Shr', 'ShlUnchecked', 'ShrUnchecked'):
        x = to_bv(a, w)
        if sb:
            bw = b.size()
            if bw < w:
                y = z3.ZeroExt(w - bw, b)
            elif bw > w:
                y = z3.Extract(w - 1, 0, b)
            else:
                y = b
        else:
            y = z3.BitVecVal(b % w, w)
        y = y & (w - 1)
        if op.startswith('Shl'):
            return x << y
        return (x >> y) if signed else z3.LShR(x, y)
    x, y = to_bv(a, w), to_bv(b, w)
    if op in ('Add', 'AddUnchecked'):
        return x + y
    if op in ('Sub', 'SubUnchecked'):
        return x - y
    if op in ('Mul', 'MulUnchecked'):
        return x * y
    if op == 'Div':
        return (x / y) if signed else z3.UDiv(x, y)
    if op == 'Rem':
        return z3.SRem(x, y) if signed else z3.URem(x, y)
    if op == 'BitAnd':
        return x & y
    if op == 'BitOr':
        return x | y
    if op == 'BitXor':
        return x ^ y
    if op == 'Eq':
        return x == y
    if op == 'Ne':
        return x != y
    if op == 'Lt':
        return (x < y) if signed else z3.ULT(x, y)
    if op == 'Le':
        return (x <= y) if signed else z3.ULE(x, y)
    if op == 'Gt':
        return (x > y) if signed else z3.UGT(x, y)
    if op == 'Ge':
        return (x >= y) if signed else z3.UGE(x, y)
    if op == 'AddWithOverflow':
        ok = z3.And(z3.BVAddNoOverflow(x, y, signed), z3.BVAddNoUnderflow(x, y)) if signed else z3.BVAddNoOverflow(x, y, False)
        return Agg([x + y, z3.Not(ok)])
    if op == 'SubWithOverflow':
        ok = z3.And(z3.BVSubNoOverflow(x, y), z3.BVSubNoUnderflow(x, y, signed)) if signed else z3.BVSubNoUnderflow(x, y, False)
        return Agg([x - y, z3.Not(ok)])
    if op == 'MulWithOverflow':
        ok = z3.And(z3.BVMulNoOverflow(x, y, signed), z3.BVMulNoUnderflow(x, y)) if signed else z3.BVMulNoOverflow(x, y, False)
        return Agg([x * y, z3.Not(ok)])
    raise Unsupported('int binop ' + op)


def bool_binop(op, a, b):
    sa, sb = isinstance(a, z3.ExprRef), isinstance(b, z3.ExprRef)
    if not sa and not sb:
        if op == 'BitAnd':
            return a and b
        if op == 'BitOr':
            return a or b
        if op == 'BitXor' or op == 'Ne':
            return a != b
        if op == 'Eq':
            return a == b
        if op == 'Lt':
            return (not a) and b
        if op == 'Le':
            return (not a) or b
        if op == 'Gt':
            return a and not b
        if op == 'Ge':
            return a or not b
        raise Unsupported('bool binop ' + op)
    if op == 'BitAnd':
        return bool_and(a, b)
    if op == 'BitOr':
        return bool_or(a, b)
    x, y = to_bool(a) if sa else z3.BoolVal(a), to_bool(b) if sb else z3.BoolVal(b)
    if op == 'BitXor' or op == 'Ne':
        return z3.Xor(x, y)
    if op == 'Eq':
        return x == y
    if op == 'Lt':
        return z3.And(z3.Not(x), y)
    if op == 'Le':
        return z3.Or(z3.Not(x), y)
    if op == 'Gt':
        return z3.And(x, z3.Not(y))
    if op == 'Ge':
        return z3.Or(x, z3.Not(y))
    raise Unsupported('bool binop ' + op)


def float_binop(op, a, b, sort=F64):
    sa, sb = isinstance(a, z3.ExprRef), isinstance(b, z3.ExprRef)
    if not sa and not sb:
        if op == 'Add':
            return a + b
        if op == 'Sub':
            return a - b
        if op == 'Mul':
            try:
                return a * b
            except OverflowError:
                return math.inf
        if op == 'Div':
            if b == 0:
                if a != a or a == 0:
                    return math.nan
                neg = (math.copysign(1, a) < 0) != (math.copysign(1, b) < 0)
                return -math.inf if neg else math.inf
            return a / b
        if op == 'Rem':
            if b == 0 or math.isinf(a) or a != a or b != b:
                return math.nan
            return math.fmod(a, b)
        if op == 'Eq':
            return a == b
        if op == 'Ne':
            return a != b
        if op == 'Lt':
            return a < b
        if op == 'Le':
            return a <= b
        if op == 'Gt':
            return a > b
        if op == 'Ge':
            return a >= b
        raise Unsupported('float binop ' + op)
    x, y = to_fp(a, sort), to_fp(b, sort)
    if op == 'Add':
        return z3.fpAdd(RNE, x, y)
    if op == 'Sub':
        return z3.fpSub(RNE, x, y)
    if op == 'Mul':
        return z3.fpMul(RNE, x, y)
    if op == 'Div':
        return z3.fpDiv(RNE, x, y)
    if op == 'Eq':
        return z3.fpEQ(x, y)
    if op == 'Ne':
        return z3.Not(z3.fpEQ(x, y))
    if op == 'Lt':
        return z3.fpLT(x, y)
    if op == 'Le':
        return z3.fpLEQ(x, y)
    if op == 'Gt':
        return z3.fpGT(x, y)
    if op == 'Ge':
        return z3.fpGEQ(x, y)
    raise Unsupported('symbolic float binop ' + op)


def float_bits(x):
    return struct.unpack('<Q', struct.pack('<d', x))[0]


def bits_float(b):
    return struct.unpack('<d', struct.pack('<Q', b & ((1 << 64) - 1)))[0]


def float_to_int(v, w, signed):
    """Rust `as` cast: saturating, NaN -> 0"""
    lo = -(1 << (w - 1)) if signed else 0
    hi = (1 << (w - 1)) - 1 if signed else (1 << w) - 1
    if not isinstance(v, z3.ExprRef):
        if v != v:
            return 0
        if v == math.inf:
            return hi
        if v == -math.inf:
            return lo
        t = int(v)
        return max(lo, min(hi, t))
    rtz = z3.RTZ()
    conv = z3.fpToSBV(rtz, v, z3.BitVecSort(w)) if signed else z3.fpToUBV(rtz, v, z3.BitVecSort(w))
    hi_f = z3.FPVal(float(hi), F64)
    lo_f = z3.FPVal(float(lo), F64)
    # float(hi) rounds up to 2^(w-1) or 2^w for w=64/32... compare with >= on the rounded bound is exact
    # because every double >= float(hi) is >= hi+something or equals 2^k which saturates anyway.
    return z3.If(z3.fpIsNaN(v), z3.BitVecVal(0, w),
                 z3.If(z3.fpGEQ(v, hi_f), z3.BitVecVal(hi & ((1 << w) - 1), w),
                       z3.If(z3.fpLEQ(v, lo_f), z3.BitVecVal(lo & ((1 << w) - 1), w), conv)))


def int_to_float(v, w, signed, sort=F64):
    if not isinstance(v, z3.ExprRef):
        return float(v)
    if z3.is_bool(v):
        v = to_bv(v, 8)
        signed = False
    return z3.fpSignedToFP(RNE, v, sort) if signed else z3.fpUnsignedToFP(RNE, v, sort)


def int_to_int(v, sw, ssigned, dw, dsigned):
    if not isinstance(v, z3.ExprRef):
        if v is True:
            v = 1
        elif v is False:
            v = 0
        return norm_int(v, dw, dsigned)
    if z3.is_bool(v):
        return z3.If(v, z3.BitVecVal(1, dw), z3.BitVecVal(0, dw))
    if dw == sw:
        return v
    if dw < sw:
        return z3.Extract(dw - 1, 0, v)
    return z3.SignExt(dw - sw, v) if ssigned else z3.ZeroExt(dw - sw, v)
