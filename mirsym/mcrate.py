"""Crate functions cut at a named boundary (DESIGN 3.3).  Each cut is echoed into the evidence
(`assumptions`) of every harness that crosses it."""
from .mirparse import Unsupported
from .values import *
from .mcore import deref, ok, err

ICP = {}


def icp(*keys):
    def deco(f):
        for k in keys:
            ICP[k] = f
        return f
    return deco


def _is_opaque(v, what):
    v = deref(v)
    return type(v) is Opaque and v.what == what


@icp('Parser::set_locale', 'Parser::set_language', 'Parser::set_lexer_mode', 'Parser::set_worksheets_and_names')
def _(eng, ci, a, dt):
    if not _is_opaque(a[0], 'parser'):
        raise Unsupported('Parser method on a non-opaque parser')
    eng.assumptions.add('intercept %s: no-op on the opaque parser (rebuilds parser tables only)' % ci.key)
    return UNIT


@icp('locale::get_default_locale', 'fn get_default_locale')
def _(eng, ci, a, dt):
    eng.assumptions.add('intercept locale::get_default_locale: opaque &Locale')
    return Ref([Opaque('locale')], 0)


@icp('language::get_default_language', 'fn get_default_language')
def _(eng, ci, a, dt):
    eng.assumptions.add('intercept language::get_default_language: &Language with code "en", tables opaque')
    from .rtm import _language_en
    return Ref([_language_en(eng)], 0)


def install(eng):
    eng.crate_intercepts = ICP


@icp('dates::date_to_serial_number', 'fn date_to_serial_number')
def _(eng, ci, a, dt):
    """calendar arithmetic lives in chrono: validity and serial are uninterpreted functions of (day, month, year)"""
    import z3
    from . import ops
    from .mcore import mkstr
    d, m, y = (ops.to_bv(x, 32) for x in a[:3])
    valid = eng.uf('date_valid', z3.BitVecSort(32), z3.BitVecSort(32), z3.BitVecSort(32), z3.BoolSort())(d, m, y)
    serial = eng.uf('date_serial', z3.BitVecSort(32), z3.BitVecSort(32), z3.BitVecSort(32), z3.BitVecSort(32))(d, m, y)
    eng.assumptions.add('intercept dates::date_to_serial_number: uninterpreted (chrono)')
    if eng.truth(valid):
        return ok(serial)
    return err(mkstr('Out of range parameters for date'))
