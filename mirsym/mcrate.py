"""Crate functions cut at a named boundary (DESIGN 3.3).  Each cut is echoed into the evidence
(`assumptions`) of every harness that crosses it."""
from .mirparse import Unsupported
from .values import *
from .mcore import deref, ok, err

ICP = {}


def icp(*keys):
    def deco(f):
        for k in keys:
            ICP[k] = f
        return f
    return deco


def _is_opaque(v, what):
    v = deref(v)
    return type(v) is Opaque and v.what == what


@icp('Parser::set_locale', 'Parser::set_language', 'Parser::set_lexer_mode', 'Parser::set_worksheets_and_names')
def _(eng, ci, a, dt):
    """on an opaque parser: no-op; the real parser (built by the Model intercept) runs its own MIR"""
    if _is_opaque(a[0], 'parser'):
        eng.assumptions.add('intercept %s: no-op on the opaque parser' % ci.key)
        return UNIT
    fn = ci.fallback_fn
    return eng.run_fn(fn, a)


@icp('locale::get_default_locale', 'fn get_default_locale')
def _(eng, ci, a, dt):
    eng.assumptions.add('intercept locale::get_default_locale: the hand-built en Locale of st::locale_with')
    from .rtm import _locale_en
    return Ref([_locale_en(eng)], 0)


@icp('locale::get_locale', 'fn get_locale')
def _(eng, ci, a, dt):
    """get_locale(id): the hand-built en / de Locale of st::locale_with; other ids are unsupported"""
    from .mcore import str_bytes, concrete_bytes, mkstrslice
    loc = concrete_bytes(str_bytes(a[0]))
    if loc not in (b'en', b'de'):
        raise Unsupported('get_locale(%r)' % (loc,))
    dec, grp = ('.', ',') if loc == b'en' else (',', '.')
    for mf in eng.mfs:
        for fn in mf.by_last.get('locale_with', ()):
            if fn.kind == 'fn' and len(fn.params) == 2:
                eng.assumptions.add('intercept locale::get_locale: the hand-built en/de Locale of st::locale_with')
                return ok(Ref([eng.run_fn(fn, [mkstrslice(dec), mkstrslice(grp)])], 0))
    raise Unsupported('get_locale without st::locale_with in the MIR')


@icp('language::get_language', 'fn get_language')
def _(eng, ci, a, dt):
    from .mcore import str_bytes, concrete_bytes
    from .rtm import _language, _language_tables
    lang = concrete_bytes(str_bytes(a[0])).decode('utf-8', 'replace')
    if lang not in _language_tables(eng):
        from .mcore import mkstr
        return err(mkstr("Language is not supported: '%s'" % lang))
    return ok(Ref([_language(eng, lang)], 0))


@icp('language::get_default_language', 'fn get_default_language')
def _(eng, ci, a, dt):
    eng.assumptions.add('intercept language::get_default_language: &Language with code "en", tables opaque')
    from .rtm import _language_en
    return Ref([_language_en(eng)], 0)




@icp('dates::date_to_serial_number', 'fn date_to_serial_number')
def _(eng, ci, a, dt):
    """calendar arithmetic lives in chrono: validity and serial are uninterpreted functions of (day, month, year)"""
    import z3
    from . import ops
    from .mcore import mkstr
    d, m, y = (ops.to_bv(x, 32) for x in a[:3])
    valid = eng.uf('date_valid', z3.BitVecSort(32), z3.BitVecSort(32), z3.BitVecSort(32), z3.BoolSort())(d, m, y)
    serial = eng.uf('date_serial', z3.BitVecSort(32), z3.BitVecSort(32), z3.BitVecSort(32), z3.BitVecSort(32))(d, m, y)
    eng.assumptions.add('intercept dates::date_to_serial_number: uninterpreted (chrono)')
    if eng.truth(valid):
        return ok(serial)
    return err(mkstr('Out of range parameters for date'))


# ----------------------------------------------------------------------------- bitcode on the diff queue: identity
# `flush_send_queue` / `apply_external_diffs` serialise the queue with bitcode.  The serialisation itself is outside
# the claim (DESIGN 3.3): encode returns a byte vector that stands for the queue, decode gives the queue back.

@icp('number_format::to_precision_str', 'fn to_precision_str')
def _(eng, ci, a, dt):
    """float -> shortest decimal text (format!("{:.*e}") + ryu): exact for concrete values whose text Python's repr
    agrees on (plain decimals); anything else is unsupported"""
    from .mcore import mkstr
    v, prec = a[0], a[1]
    if is_sym(v) or is_sym(prec):
        raise Unsupported('to_precision_str of a symbolic number')
    v = float(v)
    import math
    if math.isinf(v):
        return mkstr('inf')
    if math.isnan(v):
        return mkstr('NaN')
    parsed = float('%.*e' % (max(int(prec) - 1, 0), v))
    if parsed != 0 and not (1e-5 <= abs(parsed) < 1e16):
        raise Unsupported('to_precision_str outside the plain-decimal window')
    text = repr(parsed)
    if 'e' in text or 'E' in text:
        raise Unsupported('to_precision_str: exponent form')
    if text.endswith('.0'):
        text = text[:-2]
    eng.assumptions.add('intercept number_format::to_precision_str: exact shortest-decimal text of concrete plain decimals')
    return mkstr(text)


def install(eng):
    eng.crate_intercepts = ICP
    from .mcore import MODELS, seq_items

    def encode(e, ci, a, dt):
        if 'QueueDiffs' not in ci.text:
            raise Unsupported('bitcode::encode of ' + ci.text)
        e.assumptions.add('bitcode::encode/decode of the diff queue cut out as identity (serialisation is not the subject)')
        out = VecV([0])
        if not hasattr(e, 'bitcode_payloads'):
            e.bitcode_payloads = {}
        e.bitcode_payloads[id(out.f)] = (out.f, copy_value(deref(a[0])))
        return out

    def decode(e, ci, a, dt):
        if 'QueueDiffs' not in ci.text:
            raise Unsupported('bitcode::decode of ' + ci.text)
        lst, lo, hi = seq_items(a[0])
        ent = getattr(e, 'bitcode_payloads', {}).get(id(lst))
        if ent is None or ent[0] is not lst:
            raise Unsupported('bitcode::decode of bytes that did not come from bitcode::encode')
        return ok(copy_value(ent[1]))

    MODELS['encode'] = encode
    MODELS['decode'] = decode
