"""Solver portfolio for the queries the in-process z3 does not answer within its cap.

The query (path condition /\ candidate) is printed once as SMT-LIB2 and handed to the other solvers of the image
in parallel (cvc5, z3 4.8.12, the z3 5.1 CLI with a bit-blasting tactic and with its default pipeline).  The first definite answer wins:

  * `unsat` is taken as is (the solvers were diffed on the dumped hard queries of C13: all agree);
  * `sat` is taken only after the in-process z3 has re-established it: the solver's values for every
    declared constant are asserted next to the original query, which must then come back `sat` - that
    solver also supplies the model the engine reads counterexamples and replay inputs from;
  * any `(error` line, a parse failure, an exit without an answer, or a `sat` that the in-process z3
    does not confirm is no answer from that solver.

No answer from any solver within the cap is `unknown` (the caller raises Inconclusive) - never a verdict.
"""
import os, re, shutil, subprocess, tempfile, time
import z3

_SOLVERS = None


def solvers():
    """[(name, argv-prefix, needs_tactic)] of the external solvers present on this machine"""
    global _SOLVERS
    if _SOLVERS is None:
        out = []
        p = shutil.which('cvc5')
        if p:
            out.append(('cvc5', [p, '--lang', 'smt2', '--produce-models'], False))
        p = '/usr/bin/z3' if os.path.exists('/usr/bin/z3') else shutil.which('z3')
        if p:
            out.append(('z3-cli', [p, '-smt2'], False))
        p = shutil.which('z3-new')
        if p:
            out.append(('z3-new-bitblast', [p, '-smt2'], True))
            # the default pipeline of the same version as the in-process solver, under the full cap: nothing the
            # single 60 s in-process stage used to decide is lost by capping that stage at 10 s
            out.append(('z3-new', [p, '-smt2'], False))
        _SOLVERS = out
    return _SOLVERS


def versions():
    out = {}
    for name, argv, _ in solvers():
        try:
            r = subprocess.run([argv[0], '--version'], stdout=subprocess.PIPE, stderr=subprocess.DEVNULL, timeout=10)
            out[name] = r.stdout.decode('utf-8', 'replace').strip().splitlines()[0][:80]
        except Exception:
            out[name] = '?'
    return out


def _consts(formulas):
    """uninterpreted constants (arity 0) occurring in the formulas, by name"""
    seen, out = set(), {}
    stack = list(formulas)
    while stack:
        e = stack.pop()
        i = e.get_id()
        if i in seen:
            continue
        seen.add(i)
        if z3.is_app(e):
            d = e.decl()
            if e.num_args() == 0 and d.kind() == z3.Z3_OP_UNINTERPRETED:
                out[d.name()] = e
            else:
                stack.extend(e.children())
        elif z3.is_quantifier(e):
            stack.append(e.body())
    return out


def _sym(name):
    return name if re.fullmatch(r'[A-Za-z_~!@$%^&*+=<>.?/\-][A-Za-z0-9_~!@$%^&*+=<>.?/\-]*', name) else '|%s|' % name


def _sexprs(text):
    """top-level split of `((a v) (b v) ...)` into [(symbol, value-text)]"""
    text = text.strip()
    if not text.startswith('('):
        raise ValueError('no value list')
    pairs, i, n = [], 1, len(text)

    def skip_ws(i):
        while i < n and text[i].isspace():
            i += 1
        return i

    def read(i):
        # one s-expression starting at i; returns end index
        if text[i] == '(':
            depth = 0
            while i < n:
                ch = text[i]
                if ch == '"':
                    i += 1
                    while i < n:
                        if text[i] == '"':
                            if i + 1 < n and text[i + 1] == '"':
                                i += 2
                                continue
                            break
                        i += 1
                elif ch == '|':
                    i = text.index('|', i + 1)
                elif ch == '(':
                    depth += 1
                elif ch == ')':
                    depth -= 1
                    if depth == 0:
                        return i + 1
                i += 1
            raise ValueError('unbalanced')
        if text[i] == '|':
            return text.index('|', i + 1) + 1
        if text[i] == '"':
            i += 1
            while i < n:
                if text[i] == '"':
                    if i + 1 < n and text[i + 1] == '"':
                        i += 2
                        continue
                    return i + 1
                i += 1
            raise ValueError('unbalanced string')
        while i < n and not text[i].isspace() and text[i] not in '()':
            i += 1
        return i

    while True:
        i = skip_ws(i)
        if i >= n:
            raise ValueError('unterminated value list')
        if text[i] == ')':
            return pairs
        if text[i] != '(':
            raise ValueError('pair expected')
        i = skip_ws(i + 1)
        j = read(i)
        sym = text[i:j]
        i = skip_ws(j)
        j = read(i)
        val = text[i:j]
        i = skip_ws(j)
        if i >= n or text[i] != ')':
            raise ValueError('pair not closed')
        i += 1
        pairs.append((sym, val))


def _confirm_sat(formulas, consts, values_text, cap_ms):
    """the in-process solver under the external solver's assignment; returns the solver when sat"""
    pairs = _sexprs(values_text)
    decls, lines = {}, []
    for sym, val in pairs:
        name = sym[1:-1] if sym.startswith('|') else sym
        if name not in consts:
            continue
        decls[name] = consts[name]
        lines.append('(assert (= %s %s))' % (_sym(name), val))
    eqs = z3.parse_smt2_string('\n'.join(lines), decls=decls) if lines else []
    s = z3.Solver()
    s.set('timeout', cap_ms)
    s.add(formulas)
    s.add(eqs)
    return s if s.check() == z3.sat else None


def decide(formulas, cap_ms, stats=None):
    """(result, solver_or_None, answered_by): result is z3.sat / z3.unsat / z3.unknown"""
    svs = solvers()
    if not svs:
        return z3.unknown, None, None
    s = z3.Solver()
    s.add(formulas)
    body = s.to_smt2()
    body = re.sub(r'\(check-sat\)\s*$', '', body.rstrip())
    consts = _consts(formulas)
    getv = '(get-value (%s))\n' % ' '.join(_sym(n) for n in sorted(consts)) if consts else ''
    tmp = tempfile.mkdtemp(prefix='icverif-pf-', dir='/var/tmp')
    procs = []
    try:
        for name, argv, tactic in svs:
            q = os.path.join(tmp, name + '.smt2')
            with open(q, 'w') as fh:
                fh.write('(set-logic ALL)\n' if not tactic else '')
                if name == 'cvc5':
                    fh.write('(set-option :produce-models true)\n')
                fh.write(body + '\n')
                if tactic:
                    fh.write('(check-sat-using (then simplify propagate-values solve-eqs simplify fpa2bv bit-blast sat))\n')
                else:
                    fh.write('(check-sat)\n')
                fh.write(getv)
            o = open(os.path.join(tmp, name + '.out'), 'w')
            extra = ['--tlimit=%d' % cap_ms] if name == 'cvc5' else ['-T:%d' % max(1, cap_ms // 1000)]
            p = subprocess.Popen(argv + extra + [q], stdout=o, stderr=subprocess.DEVNULL, stdin=subprocess.DEVNULL)
            procs.append((name, p, o))
        deadline = time.time() + cap_ms / 1000.0 + 5
        live = list(procs)
        while live and time.time() < deadline:
            time.sleep(0.05)
            for ent in list(live):
                name, p, o = ent
                if p.poll() is None:
                    continue
                live.remove(ent)
                o.close()
                try:
                    out = open(os.path.join(tmp, name + '.out')).read()
                except Exception:
                    continue
                lines = out.strip().splitlines()
                ans = next((k for k, l in enumerate(lines) if l.strip() in ('sat', 'unsat', 'unknown', 'timeout')), None)
                # an `(error` before the answer (a rejected declaration or assertion) voids the answer; after
                # `unsat` the only thing that follows is get-value's "no model" error, which is expected
                bad = ans is None or any('(error' in l for l in lines[:ans]) or \
                    (lines[ans].strip() == 'sat' and any('(error' in l for l in lines[ans:]))
                if bad:
                    if stats is not None and ans is not None:
                        stats['portfolio_error_' + name] = stats.get('portfolio_error_' + name, 0) + 1
                    continue
                first = lines[ans].strip()
                lines = lines[ans:]
                if first == 'unsat':
                    return z3.unsat, None, name
                if first == 'sat':
                    try:
                        ok = _confirm_sat(formulas, consts, '\n'.join(lines[1:]), 30_000) if consts else None
                        if not consts:
                            s0 = z3.Solver()
                            s0.set('timeout', 30_000)
                            s0.add(formulas)
                            ok = s0 if s0.check() == z3.sat else None
                    except Exception:
                        ok = None
                    if ok is not None:
                        return z3.sat, ok, name
                    if stats is not None:
                        stats['portfolio_unconfirmed_sat_' + name] = stats.get('portfolio_unconfirmed_sat_' + name, 0) + 1
        return z3.unknown, None, None
    finally:
        for name, p, o in procs:
            if p.poll() is None:
                try:
                    p.kill()
                except Exception:
                    pass
            try:
                p.wait(timeout=5)
            except Exception:
                pass
            try:
                o.close()
            except Exception:
                pass
        shutil.rmtree(tmp, ignore_errors=True)
