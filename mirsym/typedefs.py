"""Struct field order / enum variant order from Rust sources (MIR prints aggregates by
field *name* and projections by *index*, so both are needed)."""
import os, re
from .mirparse import split_top, find_matching, Unsupported


class StructDef:
    def __init__(self, path, fields, tuple_like):
        self.path = path
        self.fields = fields          # [name]  (or ['0','1'] for tuple structs)
        self.tuple_like = tuple_like
        self.index = {n: i for i, n in enumerate(fields)}


class EnumDef:
    def __init__(self, path, variants):
        self.path = path
        self.variants = variants      # [(name, kind, fieldnames, discr)]
        self.by_name = {v[0]: i for i, v in enumerate(variants)}
        self.discr = [v[3] for v in variants]
        self.by_discr = {v[3]: i for i, v in enumerate(variants)}


def _strip_comments(src):
    out = []
    i = 0
    n = len(src)
    while i < n:
        c = src[i]
        if c == '"':
            j = i + 1
            while j < n and src[j] != '"':
                j += 2 if src[j] == '\\' else 1
            out.append(src[i:j + 1])
            i = j + 1
        elif c == "'" and i + 2 < n and (src[i + 2] == "'" or src[i + 1] == '\\'):
            j = src.find("'", i + 2)
            if j < 0 or j - i > 12:
                out.append(c); i += 1
            else:
                out.append(src[i:j + 1]); i = j + 1
        elif src.startswith('//', i):
            j = src.find('\n', i)
            if j < 0:
                j = n
            i = j
        elif src.startswith('/*', i):
            j = src.find('*/', i)
            i = j + 2 if j >= 0 else n
        else:
            out.append(c)
            i += 1
    return ''.join(out)


def _strip_attrs(s):
    s = s.strip()
    while s.startswith('#['):
        j = find_matching(s, 1)
        s = s[j + 1:].strip()
    return s


_re_item = re.compile(r'\b(pub(?:\([a-z: ]+\))?\s+)?(struct|enum)\s+([A-Za-z_]\w*)')


def scan_file(path, modpath, out):
    with open(path, encoding='utf-8') as f:
        src = _strip_comments(f.read())
    for m in _re_item.finditer(src):
        kind, name = m.group(2), m.group(3)
        i = m.end()
        # skip generics
        while i < len(src) and src[i].isspace():
            i += 1
        if i < len(src) and src[i] == '<':
            i = find_matching(src, i) + 1
        while i < len(src) and src[i].isspace():
            i += 1
        if src.startswith('where', i):
            k = src.find('{', i)
            i = k
        if i >= len(src):
            continue
        full = (modpath + '::' if modpath else '') + name
        if kind == 'struct':
            if src[i] == '{':
                j = find_matching(src, i)
                fields = []
                for part in split_top(src[i + 1:j]):
                    part = _strip_attrs(part)
                    part = re.sub(r'^pub(\([a-z: ]+\))?\s+', '', part)
                    if not part:
                        continue
                    fname = part.split(':', 1)[0].strip()
                    if fname.startswith('r#'):
                        fname = fname[2:]        # raw identifier: MIR prints the bare name
                    fields.append(fname)
                out[full] = StructDef(full, fields, False)
            elif src[i] == '(':
                j = find_matching(src, i)
                nf = len([p for p in split_top(src[i + 1:j]) if p.strip()])
                out[full] = StructDef(full, [str(k) for k in range(nf)], True)
            elif src[i] == ';':
                out[full] = StructDef(full, [], True)
        else:
            if src[i] != '{':
                continue
            j = find_matching(src, i)
            variants = []
            nxt = 0
            for part in split_top(src[i + 1:j]):
                part = _strip_attrs(part)
                if not part:
                    continue
                mm = re.match(r'([A-Za-z_]\w*)\s*(.*)$', part, re.S)
                if not mm:
                    variants = None
                    break
                vname, rest = mm.group(1), mm.group(2).strip()
                discr = nxt
                if rest.startswith('{'):
                    k = find_matching(rest, 0)
                    fns = []
                    for fp in split_top(rest[1:k]):
                        fp = _strip_attrs(fp)
                        fp = re.sub(r'^pub(\([a-z: ]+\))?\s+', '', fp)
                        if fp:
                            fns.append(fp.split(':', 1)[0].strip())
                    variants.append((vname, 'struct', fns, discr))
                elif rest.startswith('('):
                    k = find_matching(rest, 0)
                    nf = len([p for p in split_top(rest[1:k]) if p.strip()])
                    variants.append((vname, 'tuple', [str(q) for q in range(nf)], discr))
                else:
                    if rest.startswith('='):
                        try:
                            discr = int(rest[1:].strip().replace('_', ''), 0)
                        except ValueError:
                            raise Unsupported('enum discr %s::%s = %s' % (full, vname, rest))
                    variants.append((vname, 'unit', [], discr))
                nxt = discr + 1
            if variants is None:
                continue
            out[full] = EnumDef(full, variants)


def scan_crate(src_dir, skip=('test',)):
    """src_dir = .../src ; returns {modpath::Name: def}"""
    out = {}
    for root, dirs, files in os.walk(src_dir):
        dirs[:] = [d for d in dirs if d not in skip]
        for fn in files:
            if not fn.endswith('.rs'):
                continue
            rel = os.path.relpath(os.path.join(root, fn), src_dir)
            parts = rel[:-3].split(os.sep)
            if parts[-1] in ('mod', 'lib', 'main'):
                parts = parts[:-1]
            scan_file(os.path.join(root, fn), '::'.join(parts), out)
    return out


STD_ENUMS = {
    'Option': EnumDef('Option', [('None', 'unit', [], 0), ('Some', 'tuple', ['0'], 1)]),
    'Result': EnumDef('Result', [('Ok', 'tuple', ['0'], 0), ('Err', 'tuple', ['0'], 1)]),
    'ControlFlow': EnumDef('ControlFlow', [('Continue', 'tuple', ['0'], 0), ('Break', 'tuple', ['0'], 1)]),
    'Ordering': EnumDef('Ordering', [('Less', 'unit', [], -1), ('Equal', 'unit', [], 0), ('Greater', 'unit', [], 1)]),
    'Cow': EnumDef('Cow', [('Borrowed', 'tuple', ['0'], 0), ('Owned', 'tuple', ['0'], 1)]),
    'Bound': EnumDef('Bound', [('Included', 'tuple', ['0'], 0), ('Excluded', 'tuple', ['0'], 1), ('Unbounded', 'unit', [], 2)]),
    'Entry': EnumDef('Entry', [('Occupied', 'tuple', ['0'], 0), ('Vacant', 'tuple', ['0'], 1)]),
    'FpCategory': EnumDef('FpCategory', [('Nan', 'unit', [], 0), ('Infinite', 'unit', [], 1), ('Zero', 'unit', [], 2), ('Subnormal', 'unit', [], 3), ('Normal', 'unit', [], 4)]),
}

STD_STRUCTS = {
    'Range': StructDef('Range', ['start', 'end'], False),
    'RangeFrom': StructDef('RangeFrom', ['start'], False),
    'RangeTo': StructDef('RangeTo', ['end'], False),
    'RangeToInclusive': StructDef('RangeToInclusive', ['end'], False),
    'RangeFull': StructDef('RangeFull', [], False),
}


class TypeDefs:
    def __init__(self):
        self.defs = {}
        self.by_name = {}

    def add_crate(self, src_dir, prefix=''):
        d = scan_crate(src_dir)
        for k, v in d.items():
            kk = prefix + k
            self.defs[kk] = v
            self.by_name.setdefault(k.split('::')[-1], []).append(kk)
        self._cache = {}

    _cache = {}

    def lookup(self, path):
        """path: printed (generic-stripped) type path, possibly trimmed; returns def or None"""
        r = self._cache.get(path)
        if r is not None or path in self._cache:
            return r
        segs = path.split('::')
        name = segs[-1]
        r = None
        cands = self.by_name.get(name, [])
        if segs[0] in ('std', 'core', 'alloc'):
            cands = []          # a std type never resolves to a crate type of the same name
        if len(cands) == 1 and len(segs) == 1:
            r = self.defs[cands[0]]
        else:
            best = [c for c in cands if c == path or c.endswith('::' + path)]
            if len(best) == 1:
                r = self.defs[best[0]]
            elif len(best) > 1:
                ex = [c for c in best if c == path]
                if ex:
                    r = self.defs[ex[0]]
                else:
                    raise Unsupported('ambiguous type %s: %s' % (path, best))
            elif len(cands) == 1:
                # path printed relative to a re-export (e.g. `expressions::types::X` vs crate path)
                r = self.defs[cands[0]]
        if r is None:
            r = STD_ENUMS.get(name) or STD_STRUCTS.get(name)
        self._cache[path] = r
        return r
