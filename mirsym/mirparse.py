"""Parser for rustc's textual MIR (`-Zunpretty=mir`), pinned-nightly dialect.

Functions are indexed eagerly (header lines only) and their bodies parsed on demand.
Everything that is not recognised raises Unsupported - it is never skipped.
"""
import re, os, sys


class Unsupported(Exception):
    pass


# ----------------------------------------------------------------------------
# low-level scanning helpers

OPEN = {'(': ')', '[': ']', '{': '}', '<': '>'}
CLOSE = {')', ']', '}', '>'}


def skip_literal(s, i):
    """If s[i] starts a string / byte-string / char literal return index after it, else i."""
    c = s[i]
    if c == '"':
        j = i + 1
        while s[j] != '"':
            j += 2 if s[j] == '\\' else 1
        return j + 1
    if c == "'":
        # char literal or lifetime
        if i + 1 < len(s) and s[i + 1] == '\\':
            j = i + 2
            # escaped: \n \' \\ \u{...} \xNN
            if s[j] == 'u':
                j = s.index('}', j) + 1
            elif s[j] == 'x':
                j += 3
            else:
                j += 1
            if j < len(s) and s[j] == "'":
                return j + 1
            return i
        if i + 2 < len(s) and s[i + 2] == "'":
            return i + 3
        return i
    return i


def find_matching(s, i):
    """s[i] is an opening bracket; return index of its closing bracket."""
    depth = 0
    n = len(s)
    j = i
    while j < n:
        c = s[j]
        if c == '"' or c == "'":
            k = skip_literal(s, j)
            if k != j:
                j = k
                continue
            j += 1
            continue
        if c in OPEN:
            depth += 1
        elif c in CLOSE:
            if c == '>' and j > 0 and s[j - 1] in '-=':   # -> and =>
                j += 1
                continue
            depth -= 1
            if depth == 0:
                return j
        j += 1
    raise Unsupported('unbalanced: ' + s[i:i + 80])


def split_top(s, sep=','):
    """Split s at top-level occurrences of sep (bracket/literal aware)."""
    out = []
    depth = 0
    start = 0
    j = 0
    n = len(s)
    while j < n:
        c = s[j]
        if c == '"' or c == "'":
            k = skip_literal(s, j)
            if k != j:
                j = k
                continue
            j += 1
            continue
        if c in OPEN:
            if c == '<' and j > 0 and s[j - 1] == ' ' and j + 1 < n and s[j + 1] == ' ':
                pass  # comparison-like, never in MIR operands; ignore
            depth += 1
        elif c in CLOSE:
            if c == '>' and j > 0 and s[j - 1] in '-=':
                j += 1
                continue
            depth -= 1
        elif c == sep and depth == 0:
            out.append(s[start:j].strip())
            start = j + 1
        j += 1
    last = s[start:].strip()
    if last:
        out.append(last)
    return out


def find_top(s, ch, start=0):
    """index of first top-level occurrence of ch in s at/after start, or -1."""
    depth = 0
    j = start
    n = len(s)
    while j < n:
        c = s[j]
        if c == '"' or c == "'":
            k = skip_literal(s, j)
            if k != j:
                j = k
                continue
            j += 1
            continue
        if depth == 0 and s.startswith(ch, j):
            return j
        if c in OPEN:
            depth += 1
        elif c in CLOSE:
            if c == '>' and j > 0 and s[j - 1] in '-=':
                j += 1
                continue
            depth -= 1
        j += 1
    return -1


def unescape(body, is_bytes):
    """Rust debug-escaped literal body -> list of byte values (utf-8 for str)."""
    out = bytearray()
    i = 0
    n = len(body)
    while i < n:
        c = body[i]
        if c != '\\':
            out += c.encode('utf-8')
            i += 1
            continue
        e = body[i + 1]
        if e == 'n':
            out.append(10); i += 2
        elif e == 'r':
            out.append(13); i += 2
        elif e == 't':
            out.append(9); i += 2
        elif e == '0':
            out.append(0); i += 2
        elif e in '\\\'"':
            out.append(ord(e)); i += 2
        elif e == 'x':
            out.append(int(body[i + 2:i + 4], 16)); i += 4
        elif e == 'u':
            j = body.index('}', i)
            cp = int(body[i + 3:j], 16)
            out += chr(cp).encode('utf-8')
            i = j + 1
        else:
            raise Unsupported('escape \\' + e)
    return list(out)


# ----------------------------------------------------------------------------
# types

INT_TYPES = {
    'i8': (8, True), 'i16': (16, True), 'i32': (32, True), 'i64': (64, True), 'i128': (128, True),
    'isize': (64, True),
    'u8': (8, False), 'u16': (16, False), 'u32': (32, False), 'u64': (64, False), 'u128': (128, False),
    'usize': (64, False), 'char': (32, False),
}


def strip_generics(path):
    """remove ::<...> and <...> generic argument lists and lifetimes from a path string."""
    out = []
    i = 0
    n = len(path)
    while i < n:
        c = path[i]
        if c == '<':
            j = find_matching(path, i)
            i = j + 1
            if out and out[-1] == '::':
                pass
            continue
        out.append(c)
        i += 1
    r = ''.join(out)
    r = r.replace('::::', '::')
    while r.endswith('::'):
        r = r[:-2]
    return r


# ----------------------------------------------------------------------------
# AST node constructors (plain tuples for speed)

class Place:
    __slots__ = ('local', 'projs')

    def __init__(self, local, projs):
        self.local = local
        self.projs = projs

    def __repr__(self):
        return 'Place(_%d,%r)' % (self.local, self.projs)


_place_cache = {}


def parse_place(s):
    s = s.strip()
    p = _place_cache.get(s)
    if p is None:
        p, rest = _parse_place(s, 0)
        if rest != len(s):
            raise Unsupported('place trailing: %r' % s)
        _place_cache[s] = p
    return p


_re_local = re.compile(r'_(\d+)')


def _parse_place(s, i):
    """returns (Place, next index)"""
    if s[i] == '(':
        # (*P)  |  (P.N: T)  |  (P as V)
        if s[i + 1] == '*':
            inner, j = _parse_place(s, i + 2)
            if s[j] != ')':
                raise Unsupported('deref place: %r' % s)
            base = Place(inner.local, inner.projs + (('deref',),))
            j += 1
        else:
            inner, j = _parse_place(s, i + 1)
            if s[j] == '.':
                m = re.compile(r'\.(\d+): ').match(s, j)
                if not m:
                    raise Unsupported('field place: %r' % s)
                fld = int(m.group(1))
                # type runs to matching ')' of s[i]
                close = find_matching(s, i)
                ty = s[m.end():close]
                base = Place(inner.local, inner.projs + (('field', fld, ty),))
                j = close + 1
            elif s.startswith(' as ', j):
                close = find_matching(s, i)
                var = s[j + 4:close]
                base = Place(inner.local, inner.projs + (('downcast', var),))
                j = close + 1
            else:
                raise Unsupported('paren place: %r' % s)
    else:
        m = _re_local.match(s, i)
        if not m:
            raise Unsupported('place: %r' % s[i:i + 60])
        base = Place(int(m.group(1)), ())
        j = m.end()
    # postfix index projections
    while j < len(s) and s[j] == '[':
        close = find_matching(s, j)
        inner = s[j + 1:close]
        m = _re_local.fullmatch(inner)
        if m:
            base = Place(base.local, base.projs + (('index', int(m.group(1))),))
        else:
            m2 = re.fullmatch(r'(-?)(\d+) of (\d+)', inner)
            m3 = re.fullmatch(r'(\d+):(-?)(\d+)', inner)
            m4 = re.fullmatch(r'(\d+)\.\.(\d+)', inner)
            if m2:
                base = Place(base.local, base.projs + (('constindex', int(m2.group(2)), int(m2.group(3)), m2.group(1) == '-'),))
            elif m3:
                base = Place(base.local, base.projs + (('subslice', int(m3.group(1)), int(m3.group(3)), m3.group(2) == '-'),))
            elif m4:
                base = Place(base.local, base.projs + (('subslice', int(m4.group(1)), int(m4.group(2)), False),))
            else:
                raise Unsupported('index proj: %r' % inner)
        j = close + 1
    return base, j


def parse_operand(s):
    s = s.strip()
    if s.startswith('copy '):
        return ('copy', parse_place(s[5:]))
    if s.startswith('move '):
        return ('move', parse_place(s[5:]))
    if s.startswith('const '):
        return ('const', s[6:].strip())
    if re.match(r'^[A-Za-z_<]', s):
        return ('fnitem', s)
    raise Unsupported('operand: %r' % s)


BINOPS = {'Add', 'Sub', 'Mul', 'Div', 'Rem', 'BitXor', 'BitAnd', 'BitOr', 'Shl', 'Shr', 'Eq', 'Lt', 'Le', 'Ne', 'Ge',
          'Gt', 'Cmp', 'Offset', 'AddWithOverflow', 'SubWithOverflow', 'MulWithOverflow', 'AddUnchecked',
          'SubUnchecked', 'MulUnchecked', 'ShlUnchecked', 'ShrUnchecked'}
UNOPS = {'Not', 'Neg', 'PtrMetadata'}

_re_cast = re.compile(r'^(.*) as (.*) \((\w+(?:\([^)]*\))?(?:, \w+)?)\)$')
_re_ident_call = re.compile(r'^([A-Za-z]+)\(')


def parse_rvalue(s):
    s = s.strip()
    if s.startswith('no_retag '):
        s = s[9:]
    # reference / raw pointer
    if s.startswith('&raw mut '):
        return ('rawptr', 'mut', parse_place(_strip_fake(s[9:])))
    if s.startswith('&raw const '):
        return ('rawptr', 'const', parse_place(_strip_fake(s[11:])))
    if s.startswith('&mut '):
        return ('ref', 'mut', parse_place(s[5:]))
    if s.startswith('&fake '):
        t = s[6:]
        if t.startswith('shallow '):
            t = t[8:]
        return ('ref', 'fake', parse_place(t))
    if s.startswith('&'):
        t = s[1:]
        if t.startswith("'"):
            t = t.split(' ', 1)[1]
        return ('ref', 'shared', parse_place(t))
    # cast:  OPERAND as TYPE (Kind)
    if s.endswith(')') and (s.startswith('copy ') or s.startswith('move ') or s.startswith('const ')):
        idx = _find_cast_as(s)
        if idx >= 0:
            m = re.search(r' \(([A-Za-z]+(?:\([^()]*(?:\([^()]*\))?[^()]*\))?(?:, [A-Za-z]+)?)\)$', s)
            if m:
                ty = s[idx + 4:m.start()]
                return ('cast', parse_operand(s[:idx]), ty, m.group(1))
    if s.startswith('copy ') or s.startswith('move '):
        return ('use', parse_operand(s))
    if s.startswith('const '):
        return ('use', ('const', s[6:].strip()))
    m = _re_ident_call.match(s)
    if m:
        name = m.group(1)
        close = find_matching(s, m.end() - 1)
        if close == len(s) - 1:
            inner = s[m.end():close]
            if name in BINOPS:
                a, b = split_top(inner)
                return ('binop', name, parse_operand(a), parse_operand(b))
            if name in UNOPS:
                return ('unop', name, parse_operand(inner))
            if name == 'discriminant':
                return ('discr', parse_place(inner))
            if name == 'Len':
                return ('len', parse_place(inner))
            if name == 'CopyForDeref' or name == 'copy_for_deref':
                return ('use', ('copy', parse_place(inner)))
            if name == 'ShallowInitBox':
                a, b = split_top(inner)
                return ('shallowinitbox', parse_operand(a), b)
            if name in ('SizeOf', 'AlignOf', 'OffsetOf', 'UbChecks', 'ContractChecks', 'OverflowChecks'):
                return ('nullop', name, inner)
    # aggregates
    if s.startswith('('):
        close = find_matching(s, 0)
        if close == len(s) - 1:
            inner = s[1:close]
            return ('tuple', tuple(parse_operand(x) for x in split_top(inner)))
    if s.startswith('['):
        close = find_matching(s, 0)
        if close == len(s) - 1:
            inner = s[1:close]
            semi = find_top(inner, ';')
            if semi >= 0:
                return ('repeat', parse_operand(inner[:semi]), inner[semi + 1:].strip())
            return ('array', tuple(parse_operand(x) for x in split_top(inner)))
    if s.startswith('{closure@') or s.startswith('{coroutine@'):
        close = find_matching(s, 0)
        cty = s[:close + 1]
        rest = s[close + 1:].strip()
        fields = []
        if rest:
            if not rest.startswith('{'):
                raise Unsupported('closure agg: %r' % s)
            inner = rest[1:find_matching(rest, 0)]
            for part in split_top(inner):
                k = part.index(':')
                fields.append((part[:k].strip(), parse_operand(part[k + 1:])))
        return ('closure', cty, tuple(fields))
    # ADT aggregate: PATH { a: op, .. }  |  PATH(op, ..)  | PATH
    brace = find_top(s, ' {')
    if brace >= 0 and s.endswith('}'):
        path = s[:brace]
        inner = s[brace + 2:-1]
        fields = []
        for part in split_top(inner):
            k = part.index(':')
            fields.append((part[:k].strip(), parse_operand(part[k + 1:])))
        return ('adt', path, tuple(fields), True)
    par = find_top(s, '(')
    if par > 0 and s.endswith(')') and find_matching(s, par) == len(s) - 1:
        path = s[:par]
        inner = s[par + 1:-1]
        return ('adt', path, tuple((None, parse_operand(x)) for x in split_top(inner)), False)
    if re.fullmatch(r'[A-Za-z_<][\w:<>, \'&\[\]\(\);+=-]*', s):
        return ('adt', s, (), False)
    raise Unsupported('rvalue: %r' % s)


def _strip_fake(t):
    if t.startswith('(fake) '):
        return t[7:]
    return t


def _find_cast_as(s):
    """find the top-level ' as ' that separates operand from type in a cast rvalue"""
    # operand is 'copy PLACE' / 'move PLACE' / 'const X'; place may contain ' as ' inside parens
    start = s.index(' ') + 1
    return find_top(s, ' as ', start)


class Block:
    __slots__ = ('raw_stmts', 'raw_term', 'stmts', 'term', 'cleanup')

    def __init__(self):
        self.raw_stmts = []
        self.raw_term = None
        self.stmts = None
        self.term = None
        self.cleanup = False


class Fn:
    __slots__ = ('name', 'params', 'ret', 'locals', 'blocks', 'start', 'end', 'parsed', 'kind', 'src', 'nlocals',
                 'key', 'impl_span', 'mod_path', 'last', 'compiled')

    def __repr__(self):
        return 'Fn(%s)' % self.name


_re_bb = re.compile(r'^    bb(\d+)( \(cleanup\))?: \{$')
_re_let = re.compile(r'^    \s*let (mut )?_(\d+): (.*);$')
_re_impl_at = re.compile(r'<impl at ([^>]*?):(\d+):(\d+): (\d+):(\d+)>')


class MirFile:
    def __init__(self, path, src_root=None, crate=''):
        self.path = path
        self.crate = crate
        self.src_root = src_root
        with open(path, encoding='utf-8') as f:
            self.lines = f.read().split('\n')
        self.fns = []          # all Fn objects (functions, promoteds, const bodies)
        self.by_last = {}      # last segment -> [Fn]
        self.consts = {}       # name -> [ (fullname, ty, valuetext or Fn) ]
        self._index()
        self._src_cache = {}

    def _index(self):
        lines = self.lines
        n = len(lines)
        i = 0
        seen = set()
        ctfe_next = False
        while i < n:
            l = lines[i]
            if l.startswith('// MIR FOR CTFE'):
                ctfe_next = True
                i += 1
                continue
            if l.startswith('fn '):
                fn = self._header_fn(l, i)
                j = i + 1
                while lines[j] != '}':
                    j += 1
                fn.end = j
                if ctfe_next:
                    ctfe_next = False   # skip compile-time duplicate
                elif fn.name in seen:
                    pass
                else:
                    seen.add(fn.name)
                    self.fns.append(fn)
                    self.by_last.setdefault(fn.last, []).append(fn)
                i = j + 1
                continue
            if l.startswith('const ') or l.startswith('static '):
                ctfe_next = False
                kw = 'const ' if l.startswith('const ') else 'static '
                body = l[len(kw):]
                if body.startswith('mut '):
                    body = body[4:]
                # NAME: TYPE = const VALUE;   |   NAME: TYPE = {
                colon = find_top(body, ': ')
                name = body[:colon]
                rest = body[colon + 2:]
                if rest.endswith(' = {'):
                    ty = rest[:-4]
                    fn = Fn()
                    fn.name = name
                    fn.params = []
                    fn.ret = ty
                    fn.start = i
                    fn.parsed = False
                    fn.kind = 'const'
                    fn.compiled = None
                    fn.last = strip_generics(name).split('::')[-1]
                    fn.impl_span = None
                    fn.key = None
                    fn.mod_path = None
                    j = i + 1
                    while lines[j] != '}':
                        j += 1
                    fn.end = j
                    self.consts.setdefault(_const_key(name), []).append((name, ty, fn))
                    i = j + 1
                    continue
                eq = find_top(rest, ' = ')
                ty = rest[:eq]
                val = rest[eq + 3:].rstrip(';')
                self.consts.setdefault(_const_key(name), []).append((name, ty, val))
                i += 1
                continue
            i += 1

    def _header_fn(self, l, i):
        par = l.index('(')
        # name may contain '(' only inside <...> or {...}
        par = find_top(l, '(', 3)
        name = l[3:par]
        close = find_matching(l, par)
        params = []
        for p in split_top(l[par + 1:close]):
            k = p.index(':')
            params.append((int(p[1:k]), p[k + 1:].strip()))
        rest = l[close + 1:].strip()
        ret = '()'
        if rest.startswith('->'):
            ret = rest[2:].rstrip('{').strip()
        fn = Fn()
        fn.name = name
        fn.params = params
        fn.ret = ret
        fn.start = i
        fn.parsed = False
        fn.kind = 'fn'
        fn.compiled = None
        fn.key = None
        m = _re_impl_at.search(name)
        fn.impl_span = m.groups() if m else None
        segs = split_path(name)
        fn.last = strip_generics(segs[-1]) if not segs[-1].startswith('{') else segs[-1]
        fn.mod_path = segs
        return fn

    # ------------------------------------------------------------------
    def parse_body(self, fn):
        if fn.parsed:
            return fn
        lines = self.lines
        fn.locals = {}
        fn.blocks = {}
        cur = None
        for i in range(fn.start + 1, fn.end):
            l = lines[i]
            m = _re_bb.match(l)
            if m:
                cur = Block()
                cur.cleanup = bool(m.group(2))
                fn.blocks[int(m.group(1))] = cur
                continue
            if cur is None:
                m = _re_let.match(l)
                if m:
                    fn.locals[int(m.group(2))] = m.group(3)
                continue
            if l == '    }':
                cur = None
                continue
            s = l.strip()
            if not s:
                continue
            cur.raw_stmts.append(s)
        for b in fn.blocks.values():
            if b.raw_stmts:
                b.raw_term = b.raw_stmts.pop()
        for n_, t in fn.params:
            fn.locals[n_] = t
        fn.nlocals = (max(fn.locals) + 1) if fn.locals else 1
        fn.parsed = True
        return fn

    def parse_block(self, fn, bbn):
        b = fn.blocks[bbn]
        if b.stmts is None:
            b.stmts = [parse_stmt(s) for s in b.raw_stmts]
            b.term = parse_term(b.raw_term)
        return b

    # ------------------------------------------------------------------
    def impl_header_text(self, fn):
        """source text covered by the `<impl at FILE:L:C: L:C>` span of fn (or None)."""
        if not fn.impl_span or not self.src_root:
            return None
        f, l1, c1, l2, c2 = fn.impl_span
        key = f
        src = self._src_cache.get(key)
        if src is None:
            p = os.path.join(self.src_root, f)
            try:
                with open(p, encoding='utf-8') as fh:
                    src = fh.read().split('\n')
            except OSError:
                src = []
            self._src_cache[key] = src
        l1, c1, l2, c2 = int(l1), int(c1), int(l2), int(c2)
        if l1 - 1 >= len(src):
            return None
        if l1 == l2:
            return src[l1 - 1][c1 - 1:c2 - 1]
        parts = [src[l1 - 1][c1 - 1:]] + src[l1:l2 - 1] + [src[l2 - 1][:c2 - 1]]
        return ' '.join(x.strip() for x in parts)


def _const_key(name):
    return strip_generics(name).split('::')[-1]


def split_path(name):
    """split a path at top-level '::'"""
    out = []
    depth = 0
    start = 0
    j = 0
    n = len(name)
    while j < n:
        c = name[j]
        if c in OPEN:
            depth += 1
        elif c in CLOSE:
            if c == '>' and j > 0 and name[j - 1] in '-=':
                j += 1
                continue
            depth -= 1
        elif c == ':' and depth == 0 and name.startswith('::', j):
            out.append(name[start:j])
            start = j + 2
            j += 2
            continue
        j += 1
    out.append(name[start:])
    return out


# ----------------------------------------------------------------------------
# statements and terminators

def parse_stmt(s):
    if not s.endswith(';'):
        raise Unsupported('stmt: %r' % s)
    s = s[:-1]
    if s.startswith('StorageLive(') or s.startswith('StorageDead(') or s == 'nop' or s.startswith('ConstEvalCounter') \
            or s.startswith('Coverage') or s.startswith('FakeRead') or s.startswith('PlaceMention') \
            or s.startswith('AscribeUserType') or s.startswith('Retag') or s.startswith('BackwardIncompatibleDropHint'):
        return ('nop',)
    if s.startswith('assume('):
        return ('assume', parse_operand(s[7:-1]))
    if s.startswith('Deinit('):
        return ('nop',)
    if s.startswith('discriminant('):
        close = find_matching(s, 12)
        return ('setdiscr', parse_place(s[13:close]), int(s[close + 1:].strip().lstrip('=').strip()))
    if s.startswith('copy_nonoverlapping('):
        raise Unsupported('copy_nonoverlapping')
    eq = find_top(s, ' = ')
    if eq < 0:
        raise Unsupported('stmt: %r' % s)
    return ('assign', parse_place(s[:eq]), parse_rvalue(s[eq + 3:]))


_re_targets = re.compile(r'bb(\d+)')


def parse_term(s):
    if s == 'return;':
        return ('return',)
    if s == 'unreachable;':
        return ('unreachable',)
    if s.startswith('goto -> '):
        return ('goto', int(s[10:-1]))
    if s.startswith('resume') or s.startswith('abort') or s.startswith('terminate'):
        return ('resume',)
    if s.startswith('switchInt('):
        close = find_matching(s, 9)
        op = parse_operand(s[10:close])
        tg = s[close + 1:].strip()
        assert tg.startswith('-> [') and tg.endswith('];'), s
        arms = []
        other = None
        for part in tg[4:-2].split(', '):
            k, v = part.split(': ')
            if k == 'otherwise':
                other = int(v[2:])
            else:
                arms.append((int(k), int(v[2:])))
        return ('switch', op, tuple(arms), other)
    if s.startswith('drop('):
        close = find_matching(s, 4)
        m = re.search(r'return: bb(\d+)', s[close:])
        return ('drop', parse_place(s[5:close]), int(m.group(1)))
    if s.startswith('assert('):
        close = find_matching(s, 6)
        parts = split_top(s[7:close])
        cond = parts[0]
        expected = True
        if cond.startswith('!'):
            expected = False
            cond = cond[1:]
        msg = ', '.join(parts[1:])
        m = re.search(r'success: bb(\d+)', s[close:])
        return ('assert', parse_operand(cond), expected, msg, int(m.group(1)))
    if s.startswith('falseEdge') or s.startswith('falseUnwind'):
        m = re.search(r'real: bb(\d+)', s)
        return ('goto', int(m.group(1)))
    # call:  DEST = CALLEE(ARGS) -> [return: bbN, unwind ...];   |   CALLEE(ARGS) -> unwind continue;
    arrow = s.rfind(' -> ')
    if arrow < 0:
        raise Unsupported('term: %r' % s)
    head = s[:arrow]
    tail = s[arrow + 4:]
    m = re.search(r'return: bb(\d+)', tail)
    ret = int(m.group(1)) if m else None
    eq = find_top(head, ' = ')
    dest = None
    if eq >= 0:
        dest = parse_place(head[:eq])
        head = head[eq + 3:]
    par = find_top(head, '(')
    if par < 0:
        raise Unsupported('call: %r' % s)
    close = find_matching(head, par)
    # callee could be `move _5` (fn pointer call)
    callee = head[:par]
    args = tuple(parse_operand(a) for a in split_top(head[par + 1:close]))
    return ('call', dest, callee, args, ret)
