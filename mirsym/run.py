"""Load MIR, explore harness functions, aggregate per-path records."""
import os, sys, json, time, glob, shutil, multiprocessing, threading, gc, resource
from .mirparse import MirFile, Unsupported
from .typedefs import TypeDefs
from .interp import Engine
from . import mcore, miter, mstr, mmap, rtm


def load(mir_paths, src_dirs, opts=None):
    """mir_paths: [(mir file, crate src root for spans)], src_dirs: [(src dir, prefix)]"""
    mfs = [MirFile(p, root) for p, root in mir_paths]
    td = TypeDefs()
    for d, prefix in src_dirs:
        td.add_crate(d, prefix)
    eng = Engine(mfs, td, opts)
    eng.models = mcore.MODELS
    eng.rt = rtm.RT
    try:
        from . import mcrate
        mcrate.install(eng)
    except ImportError:
        pass
    return eng


def find_harness(eng, name):
    """name like c29::width_frame -> Fn `verif::c29::width_frame`"""
    want = name.split('::')
    found = []
    for mf in eng.mfs:
        for fn in mf.by_last.get(want[-1], ()):
            if fn.kind == 'fn' and not fn.params:
                found.append(fn)
    if len(found) != 1:
        raise KeyError('harness %s: %d candidates in MIR' % (name, len(found)))
    return found[0]


def list_harnesses(eng, module):
    import re
    src = open(os.path.join(os.path.dirname(os.path.dirname(os.path.abspath(__file__))), 'harness', module + '.rs')).read()
    return ['%s::%s' % (module, f) for f in re.findall(r'^pub fn (h_\w+)\s*\(\s*\)', src, re.M)]


def _child_main(eng, fn, name):
    rtm.explore_harness(eng, fn, name)


def explore(eng, names, out_root, jobs=15, deadline=None, max_paths=200000):
    """explore each harness in a process of its own (at most `jobs` at a time); returns {name: [records]}"""
    os.makedirs(out_root, exist_ok=True)
    results = {}
    gc.collect()
    gc.freeze()
    todo = list(names)
    running = {}

    def launch(name):
        fn = find_harness(eng, name)
        d = os.path.join(out_root, name.replace('::', '.'))
        shutil.rmtree(d, ignore_errors=True)
        os.makedirs(d)
        sys.stdout.flush()
        sys.stderr.flush()
        pid = os.fork()
        if pid == 0:
            try:
                eng.out_dir = d
                eng.max_paths = max_paths
                eng.deadline = deadline
                eng.is_root = False      # so that finish_process exits this process
                threading.stack_size(512 * 1024 * 1024)
                sys.setrecursionlimit(100000)
                th = threading.Thread(target=_child_main, args=(eng, fn, name))
                th.start()
                th.join()
                sys.stdout.flush()
                sys.stderr.flush()
                os._exit(0)
            except BaseException as e:
                sys.stderr.write('harness root failed: %r\n' % (e,))
            finally:
                os._exit(3)
        running[pid] = (name, d)

    def collect(pid, st):
        name, d = running.pop(pid)
        recs = []
        for f in glob.glob(os.path.join(d, 'p.*.jsonl')):
            with open(f) as fh:
                for line in fh:
                    line = line.strip()
                    if line:
                        recs.append(json.loads(line))
        if st != 0:
            recs.append({'type': 'error', 'detail': 'harness process exit status %d' % st})
        results[name] = recs

    while todo or running:
        while todo and len(running) < max(jobs, 1):
            launch(todo.pop(0))
        pid, st = os.wait()
        if pid in running:
            collect(pid, st)
    return results


def summarize(recs):
    paths = [r for r in recs if r['type'] == 'path']
    viol = [r for r in recs if r['type'] == 'violation']
    errs = [r for r in recs if r['type'] == 'error']
    by_status = {}
    for p in paths:
        by_status[p['status']] = by_status.get(p['status'], 0) + 1
    stats = {}
    for p in paths:
        for k, v in p['stats'].items():
            stats[k] = stats.get(k, 0) + v
    return {'paths': len(paths), 'by_status': by_status, 'violations': len(viol), 'errors': len(errs), 'stats': stats}
