"""Load MIR, explore harness functions, aggregate per-path records."""
import os, sys, json, time, glob, shutil, multiprocessing, threading, gc, resource
from .mirparse import MirFile, Unsupported
from .typedefs import TypeDefs
from .interp import Engine
from . import mcore, miter, mstr, mmap, rtm


def load(mir_paths, src_dirs, opts=None):
    """mir_paths: [(mir file, crate src root for spans)], src_dirs: [(src dir, prefix)]"""
    mfs = [MirFile(p, root) for p, root in mir_paths]
    td = TypeDefs()
    for d, prefix in src_dirs:
        td.add_crate(d, prefix)
    eng = Engine(mfs, td, opts)
    eng.models = mcore.MODELS
    eng.rt = rtm.RT
    try:
        from . import mcrate
        mcrate.install(eng)
    except ImportError:
        pass
    return eng


def find_harness(eng, name):
    """name like c29::width_frame -> Fn `verif::c29::width_frame`"""
    want = name.split('::')
    found = []
    for mf in eng.mfs:
        for fn in mf.by_last.get(want[-1], ()):
            if fn.kind == 'fn' and not fn.params:
                found.append(fn)
    if len(found) != 1:
        raise KeyError('harness %s: %d candidates in MIR' % (name, len(found)))
    return found[0]


def list_harnesses(eng, module):
    import re
    src = open(os.path.join(os.path.dirname(os.path.dirname(os.path.abspath(__file__))), 'harness', module + '.rs')).read()
    return ['%s::%s' % (module, f) for f in re.findall(r'^pub fn (h_\w+)\s*\(\s*\)', src, re.M)]


def _worker_loop(eng, q, queued, outstanding, idle, out_root, nworkers):
    import faulthandler, signal
    if os.environ.get('MIRSYM_FH'):
        _fh = open(os.path.join(os.environ['MIRSYM_FH'], 'fh.%d' % os.getpid()), 'w')
        faulthandler.register(signal.SIGUSR1, file=_fh, all_threads=True)
    fns = {}
    while True:
        with idle.get_lock():
            idle.value += 1
        task = q.get()
        with idle.get_lock():
            idle.value -= 1
        if task is None:
            break
        with queued.get_lock():
            queued.value -= 1
        name, prefix = task
        fn = fns.get(name)
        if fn is None:
            fn = fns[name] = find_harness(eng, name)
        eng.out_dir = os.path.join(out_root, name.replace('::', '.'))

        def donate(pending, name=name):
            # hand the shallowest pending prefix (largest subtree) to an idle worker
            if len(pending) > 1 and idle.value > 0 and queued.value < nworkers:
                pre = pending.pop(0)
                with outstanding.get_lock():
                    outstanding.value += 1
                with queued.get_lock():
                    queued.value += 1
                q.put((name, pre))
        try:
            rtm.explore_task(eng, fn, name, prefix, donate)
        except BaseException as e:
            try:
                eng.emit({'type': 'error', 'detail': 'worker failed: %r' % (e,)})
                eng.close_out()
            except Exception:
                pass
        with outstanding.get_lock():
            outstanding.value -= 1


def explore(eng, names, out_root, jobs=15, deadline=None, max_paths=200000):
    """explore the path trees of all harnesses with a pool of `jobs` worker processes that share work
    (decision prefixes) through a queue; returns {name: [records]}"""
    os.makedirs(out_root, exist_ok=True)
    gc.collect()
    gc.freeze()
    nworkers = max(1, min(jobs, 32))
    q = multiprocessing.SimpleQueue()
    queued = multiprocessing.Value('i', 0)
    outstanding = multiprocessing.Value('i', 0)
    idle = multiprocessing.Value('i', 0)
    for name in names:
        find_harness(eng, name)
        d = os.path.join(out_root, name.replace('::', '.'))
        shutil.rmtree(d, ignore_errors=True)
        os.makedirs(d)
        with outstanding.get_lock():
            outstanding.value += 1
        with queued.get_lock():
            queued.value += 1
        q.put((name, []))
    sys.stdout.flush()
    sys.stderr.flush()
    pids = []
    for w in range(nworkers):
        pid = os.fork()
        if pid == 0:
            try:
                eng.max_paths = max_paths
                eng.deadline = deadline
                eng.is_root = False
                threading.stack_size(512 * 1024 * 1024)
                sys.setrecursionlimit(100000)
                th = threading.Thread(target=_worker_loop, args=(eng, q, queued, outstanding, idle, out_root, nworkers))
                th.start()
                th.join()
                sys.stdout.flush()
                sys.stderr.flush()
                os._exit(0)
            except BaseException as e:
                sys.stderr.write('worker failed: %r\n' % (e,))
            finally:
                os._exit(3)
        pids.append(pid)
    alive = set(pids)
    bad = []
    while outstanding.value > 0 and alive:
        time.sleep(0.05)
        # a worker that died takes its task with it: detect and stop
        for pid in list(alive):
            r, st = os.waitpid(pid, os.WNOHANG)
            if r:
                alive.discard(pid)
                bad.append((pid, st))
        if bad:
            break
        if deadline and time.time() > deadline + 90:
            # a worker stuck inside a solver call that does not poll its cancel flag (seen with fp.div bit-blasting)
            import signal
            for pid in list(alive):
                try:
                    os.kill(pid, signal.SIGKILL)
                except OSError:
                    pass
                os.waitpid(pid, 0)
                alive.discard(pid)
            bad.append(('killed at the wall-clock budget', outstanding.value))
            break
    for _ in alive:
        q.put(None)
    for pid in alive:
        _, st = os.waitpid(pid, 0)
        if st != 0:
            bad.append((pid, st))
    results = {}
    for name in names:
        d = os.path.join(out_root, name.replace('::', '.'))
        recs = []
        for f in glob.glob(os.path.join(d, 'p.*.jsonl')):
            with open(f) as fh:
                for line in fh:
                    line = line.strip()
                    if line:
                        recs.append(json.loads(line))
        results[name] = recs
    if bad:
        for name in names:
            results[name].append({'type': 'error', 'detail': 'worker process(es) exited abnormally: %s' % bad[:3]})
    return results


def summarize(recs):
    paths = [r for r in recs if r['type'] == 'path']
    viol = [r for r in recs if r['type'] == 'violation']
    errs = [r for r in recs if r['type'] == 'error']
    by_status = {}
    for p in paths:
        by_status[p['status']] = by_status.get(p['status'], 0) + 1
    stats = {}
    for p in paths:
        for k, v in p['stats'].items():
            stats[k] = stats.get(k, 0) + v
    return {'paths': len(paths), 'by_status': by_status, 'violations': len(viol), 'errors': len(errs), 'stats': stats}
