"""debug CLI: python -m mirsym.cli c29::h_col_width [--trace] [--jobs N]"""
import sys, os, json, time, tempfile, shutil
from . import build, run

def main():
    args = [a for a in sys.argv[1:] if not a.startswith('--')]
    opts = {}
    if '--trace' in sys.argv:
        opts['trace_calls'] = True
    jobs = 15
    for a in sys.argv:
        if a.startswith('--jobs='):
            jobs = int(a[7:])
    extra = [x for x in os.environ.get('MIRSYM_EXTRA_MIR', '').split(',') if x]
    b = build.prepare(extra_mir_pkgs=tuple(extra))
    t = time.time()
    mirs = [(b['mir'], b['src'])]
    srcs = [(os.path.join(b['src'], 'src'), '')]
    for pkg in extra:
        import glob
        root = sorted(glob.glob(os.path.expanduser('~/.cargo/registry/src/*/%s-[0-9]*' % pkg)))[-1]
        mirs.append((os.path.join(b['out'], pkg + '.mir'), root))
        srcs.append((os.path.join(root, 'src'), pkg + '::'))
    opts['extra_pkgs'] = extra
    eng = run.load(mirs, srcs, opts)
    print('loaded in %.1fs' % (time.time() - t))
    names = []
    for a in args:
        if a.startswith('h_') or a.startswith('ht_'):
            names.append(a)
        else:
            names += [f for m, f, _ in build.harness_fns(build.HDIR) if m == a]
    out = tempfile.mkdtemp(prefix='mirsym-run-')
    t = time.time()
    res = run.explore(eng, names, out, jobs=jobs, deadline=time.time() + 1500)
    for n, recs in res.items():
        s = run.summarize(recs)
        print(n, json.dumps(s))
        seen = set()
        for r in recs:
            if r['type'] == 'path' and r['status'] not in ('ok', 'assume-false'):
                k = (r['status'], r['detail'][:300])
                if k not in seen:
                    seen.add(k)
                    print('   ', r['status'], r['detail'][:300], '...', r['detail'][-700:])
            if r['type'] == 'violation':
                k = (r['check'], r['kind'])
                if k not in seen:
                    seen.add(k)
                    print('   VIOL', r['check'], r['kind'], r.get('panic', ''), json.dumps(r['inputs'])[:400])
            if r['type'] == 'error':
                print('   ERROR', r['detail'])
    print('explored in %.1fs' % (time.time() - t))
    if '--keep' in sys.argv:
        print(out)
    else:
        shutil.rmtree(out, ignore_errors=True)

main()
