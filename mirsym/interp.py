"""mirsym: path-forking symbolic executor over rustc MIR text.

One process per live path (os.fork at feasible multi-way branches), one incremental z3
solver per process.  Structure (lengths, variants, map shapes) is concrete per path,
scalars are symbolic.  See /verif/DESIGN.md section 3.
"""
import os, sys, re, json, time, math, struct, signal, traceback
import z3
from .mirparse import (MirFile, Fn, Place, Unsupported, INT_TYPES, split_path, split_top, strip_generics,
                       find_matching, find_top, unescape, parse_rvalue, parse_stmt, parse_term)
from .values import *
from . import ops, portfolio
from .ops import is_sym


class RustPanic(Exception):
    def __init__(self, msg, kind='panic', where=''):
        Exception.__init__(self, msg)
        self.msg = msg
        self.kind = kind
        self.where = where


class PathEnd(Exception):
    def __init__(self, status, detail=''):
        Exception.__init__(self, status)
        self.status = status
        self.detail = detail


class Inconclusive(Exception):
    pass


class Frame:
    __slots__ = ('fn', 'locals', 'tycache')

    def __init__(self, fn, locals_):
        self.fn = fn
        self.locals = locals_


_re_int_const = re.compile(r'^(-?\d+)_([iu](?:8|16|32|64|128|size))$')
_re_float_const = re.compile(r'^(-?(?:\d+(?:\.\d+)?(?:E[+-]?\d+)?|inf|NaN))f(64|32)$')
_re_generic_param = re.compile(r'^(?:[A-Z]\w?|Self|__[A-Z]\w*|impl .*)$')

SPECIAL_CONSTS = {
    'i8::MAX': (127, 'i8'), 'i8::MIN': (-128, 'i8'), 'u8::MAX': (255, 'u8'),
    'i16::MAX': (32767, 'i16'), 'i16::MIN': (-32768, 'i16'), 'u16::MAX': (65535, 'u16'),
    'i32::MAX': (2 ** 31 - 1, 'i32'), 'i32::MIN': (-2 ** 31, 'i32'), 'u32::MAX': (2 ** 32 - 1, 'u32'),
    'i64::MAX': (2 ** 63 - 1, 'i64'), 'i64::MIN': (-2 ** 63, 'i64'), 'u64::MAX': (2 ** 64 - 1, 'u64'),
    'usize::MAX': (2 ** 64 - 1, 'usize'), 'isize::MAX': (2 ** 63 - 1, 'isize'), 'isize::MIN': (-2 ** 63, 'isize'),
    'usize::MIN': (0, 'usize'), 'u32::MIN': (0, 'u32'), 'u8::MIN': (0, 'u8'), 'u64::MIN': (0, 'u64'),
    'f64::NAN': (math.nan, 'f64'), 'f64::INFINITY': (math.inf, 'f64'), 'f64::NEG_INFINITY': (-math.inf, 'f64'),
    'f64::EPSILON': (sys.float_info.epsilon, 'f64'), 'f64::MAX': (sys.float_info.max, 'f64'),
    'f64::MIN': (-sys.float_info.max, 'f64'), 'f64::MIN_POSITIVE': (sys.float_info.min, 'f64'),
    'consts::PI': (math.pi, 'f64'), 'consts::E': (math.e, 'f64'), 'consts::LN_2': (math.log(2), 'f64'),
    'consts::LN_10': (math.log(10), 'f64'), 'consts::FRAC_PI_2': (math.pi / 2, 'f64'),
    'consts::SQRT_2': (math.sqrt(2), 'f64'), 'consts::TAU': (math.tau, 'f64'),
    'consts::FRAC_1_SQRT_2': (1 / math.sqrt(2), 'f64'), 'consts::FRAC_PI_4': (math.pi / 4, 'f64'),
    'char::MAX': (0x10ffff, 'char'),
}


def strip_ref(t):
    t = t.strip()
    while True:
        if t.startswith('&'):
            t = t[1:].lstrip()
            if t.startswith("'"):
                t = t.split(' ', 1)[1] if ' ' in t else ''
            if t.startswith('mut '):
                t = t[4:]
            continue
        if t.startswith('*const '):
            t = t[7:]
            continue
        if t.startswith('*mut '):
            t = t[5:]
            continue
        return t.strip()


def deref_type(t):
    t = t.strip()
    if t.startswith('&'):
        t = t[1:].lstrip()
        if t.startswith("'"):
            t = t.split(' ', 1)[1] if ' ' in t else ''
        if t.startswith('mut '):
            t = t[4:]
        return t.strip()
    if t.startswith('*const '):
        return t[7:].strip()
    if t.startswith('*mut '):
        return t[5:].strip()
    for p in ('std::boxed::Box<', 'Box<', 'alloc::boxed::Box<'):
        if t.startswith(p):
            inner = t[len(p):-1]
            return split_top(inner)[0]
    return None


def elem_type(t):
    t = t.strip()
    if t.startswith('['):
        inner = t[1:find_matching(t, 0)]
        semi = find_top(inner, ';')
        return inner[:semi].strip() if semi >= 0 else inner.strip()
    return None


def type_head(t):
    """last path segment of a type without generics / refs: `std::vec::Vec<T>` -> `Vec`"""
    t = strip_ref(t)
    if t.startswith('['):
        return 'slice' if find_top(t[1:find_matching(t, 0)], ';') < 0 else 'array'
    if t.startswith('('):
        return 'tuple'
    if t.startswith('dyn '):
        t = t[4:]
    g = strip_generics(t)
    return g.split('::')[-1].strip()


def _squash_impl(text):
    """`a::<impl model::Model<'_>>::f` -> `a::<impl>::f` (balanced brackets)"""
    out = []
    i = 0
    while True:
        j = text.find('<impl ', i)
        if j < 0:
            out.append(text[i:])
            break
        out.append(text[i:j])
        k = find_matching(text, j)
        out.append('<impl>')
        i = k + 1
    return ''.join(out)


class CallInfo:
    __slots__ = ('text', 'kind', 'fn', 'model', 'self_ty', 'trait', 'method', 'generics', 'key', 'segs', 'impl_ty',
                 'name', 'nderef', 'fallback_fn')

    def __repr__(self):
        return 'CallInfo(%s)' % self.text


class Engine:
    def __init__(self, mirfiles, typedefs, opts=None):
        self.mfs = mirfiles
        self.td = typedefs
        o = opts or {}
        self.max_steps = o.get('max_steps', 2_000_000)
        self.max_depth = o.get('max_depth', 400)
        self.query_timeout_ms = int(os.environ.get('MIRSYM_QUERY_MS', o.get('query_timeout_ms', 60_000)))
        self.fast_timeout_ms = int(os.environ.get('MIRSYM_FAST_MS', o.get('fast_timeout_ms', 500)))
        self.fallback_timeout_ms = int(os.environ.get('MIRSYM_FALLBACK_MS', o.get('fallback_timeout_ms', 10_000)))
        self.use_portfolio = os.environ.get('MIRSYM_PORTFOLIO', '1') != '0'
        self.model_solver = None
        self.div_lemma = bool(os.environ.get('MIRSYM_DIV_LEMMA'))   # experimental (C21 probe only)
        self.solver = z3.Solver()
        self.solver.set('timeout', self.query_timeout_ms)
        self.pc = []
        self.steps = 0
        self.depth = 0
        self.inputs = []          # (kind, term)
        self.events = []
        self.decisions = []
        self.nchoose = 0
        self.replay = None        # dict seq -> idx
        self.stats = {'q_branch': 0, 'q_assert': 0, 'sat': 0, 'unsat': 0, 'unknown': 0, 'solver_s': 0.0, 'forks': 0,
                      'steps': 0}
        self.fns_entered = set()
        self.models_used = set()
        self.assumptions = set()
        self.callinfo = {}
        self.const_cache = {}
        self.closure_index = None
        self.is_root = True
        self.children = []
        self.has_token = False
        self.sem = None
        self.out = None
        self.out_dir = None
        self.out_path_dir = None
        self.models = {}
        self.rt = {}
        self.path_counter = None
        self.max_paths = o.get('max_paths', 200_000)
        self.deadline = o.get('deadline', None)
        self.trace_calls = o.get('trace_calls', False)
        self.sym_counter = 0
        self.int_str_origin = {}
        self.cur_harness = ''
        self.uf_cache = {}
        self.callstack = []
        self.prefix = []
        self.taken = []
        self.pending = []
        for mf in self.mfs:
            for fn in mf.fns:
                fn.src = mf
            for lst in mf.consts.values():
                for (_, _, v) in lst:
                    if isinstance(v, Fn):
                        v.src = mf

    # ------------------------------------------------------------------ solver
    def check_sat(self, c, kind='q_branch'):
        """decide pc /\\ c.  First the incremental solver under a short cap; if that does not answer,
        a fresh non-incremental solver (z3's tactic pipeline: simplify + bit-blast + SAT) under a medium
        cap; if that does not answer either, the solver portfolio (mirsym/portfolio.py: cvc5, z3 4.8.12 and
        a bit-blasting z3 5.1 in parallel on the printed query, `sat` re-established in process) under the
        full cap.  `unknown` after all three is Inconclusive, never an answer."""
        t = time.time()
        self.solver.set('timeout', self.fast_timeout_ms)
        r = self.solver.check(c) if c is not None else self.solver.check()
        self.model_solver = self.solver
        if r == z3.unknown:
            self.stats['fallback'] = self.stats.get('fallback', 0) + 1
            s2 = z3.Solver()
            s2.set('timeout', self.fallback_timeout_ms)
            # NOT self.solver.assertions(): after a check() that timed out z3 5.1 can hand back a
            # preprocessed assertion set (observed: models of the copy violate the original constraints)
            s2.add(self.pc)
            if c is not None:
                s2.add(c)
            r = s2.check()
            self.model_solver = s2
            if r == z3.unknown and self.use_portfolio:
                self.stats['portfolio'] = self.stats.get('portfolio', 0) + 1
                r, s3, who = portfolio.decide(list(self.pc) + ([c] if c is not None else []),
                                              self.query_timeout_ms, self.stats)
                if who:
                    self.stats['portfolio_by_' + who] = self.stats.get('portfolio_by_' + who, 0) + 1
                if s3 is not None:
                    self.model_solver = s3
        dt = time.time() - t
        self.stats['solver_s'] += dt
        self.stats[kind] += 1
        if r == z3.sat:
            self.stats['sat'] += 1
            return True
        if r == z3.unsat:
            self.stats['unsat'] += 1
            return False
        self.stats['unknown'] += 1
        dd = os.environ.get('MIRSYM_DUMP_UNKNOWN')
        if dd:
            try:
                os.makedirs(dd, exist_ok=True)
                with open(os.path.join(dd, 'unknown-%d-%d.smt2' % (os.getpid(), self.stats['unknown'])), 'w') as fh:
                    fh.write(s2.to_smt2())
            except Exception:
                pass
        raise Inconclusive('solver returned unknown (%s) after %.1fs' % (s2.reason_unknown(), dt))

    def model(self):
        """model of the last satisfiable query"""
        return self.model_solver.model()

    def add(self, c):
        if c is True:
            return
        self.solver.add(c)
        self.pc.append(c)

    def fresh(self, prefix, sort):
        self.sym_counter += 1
        return z3.Const('%s!%d' % (prefix, self.sym_counter), sort)

    def uf(self, name, *sorts):
        k = (name,) + tuple(str(s) for s in sorts)
        f = self.uf_cache.get(k)
        if f is None:
            f = z3.Function(name, *sorts)
            self.uf_cache[k] = f
        return f

    # ------------------------------------------------------------------ path forking (in-process DFS with replay)
    def in_replay(self):
        """True while re-executing the prefix of decisions that leads to this path's fork point: every
        query in this zone was decided when the prefix was first explored"""
        return self.nchoose < len(self.prefix)

    def choose(self, conds, exhaustive=True):
        """conds: list of python bools / z3 Bools, mutually exclusive.  Returns the index taken on this
        path; the other feasible alternatives are queued as decision prefixes and explored later by
        deterministic re-execution from the start of the harness (no solver queries while replaying)."""
        self.nchoose += 1
        seq = self.nchoose
        if seq <= len(self.prefix):
            i = self.prefix[seq - 1]
            if conds[i] is not True:
                self.add(conds[i])
            return i
        feas = []
        n = len(conds)
        for i, c in enumerate(conds):
            if c is True:
                feas.append(i)
                break
            if c is False:
                continue
            if exhaustive and i == n - 1 and not feas:
                feas.append(i)
                break
            if self.check_sat(c):
                feas.append(i)
        if not feas:
            raise PathEnd('infeasible', 'no feasible alternative')
        i = feas[0]
        if len(feas) > 1:
            if self.deadline and time.time() > self.deadline:
                raise Inconclusive('wall-clock budget exhausted')
            for j in feas[1:]:
                self.pending.append(self.taken + [j])
            self.stats['forks'] += len(feas) - 1
            self.decisions.append((seq, i))
        self.taken.append(i)
        if conds[i] is not True:
            self.add(conds[i])
        return i

    def reset_path(self, prefix):
        self.solver = z3.Solver()
        self.solver.set('timeout', self.query_timeout_ms)
        self.pc = []
        self.steps = 0
        self.depth = 0
        self.inputs = []
        self.events = []
        self.decisions = [(k + 1, v) for k, v in enumerate(prefix)][-40:]
        self.nchoose = 0
        self.prefix = prefix
        self.taken = list(prefix)
        self.stats = {'q_branch': 0, 'q_assert': 0, 'sat': 0, 'unsat': 0, 'unknown': 0, 'solver_s': 0.0, 'forks': 0,
                      'steps': 0}
        self.fns_entered = set()
        self.models_used = set()
        self.assumptions = set()
        self.sym_counter = 0
        self.int_str_origin = {}
        self.callstack = []
        self.check_sites = {}
        self.ascii_ok = set()
        self.bitcode_payloads = {}

    def _wait(self, pid):
        while True:
            try:
                _, st = os.waitpid(pid, 0)
                break
            except InterruptedError:
                continue
            except ChildProcessError:
                return
        if st != 0:
            self.emit({'type': 'error', 'detail': 'child %d exited with status %d' % (pid, st)})

    def emit(self, rec):
        if self.out is None or self.out_path_dir != self.out_dir:
            self.close_out()
            self.out = open(os.path.join(self.out_dir, 'p.%d.jsonl' % os.getpid()), 'a')
            self.out_path_dir = self.out_dir
        self.out.write(json.dumps(rec) + '\n')

    def close_out(self):
        if self.out:
            self.out.flush()
            self.out.close()
            self.out = None

    def finish_process(self):
        """called once when the harness' path tree is exhausted"""
        if self.out:
            self.out.flush()
            self.out.close()
            self.out = None
        if not self.is_root:
            sys.stdout.flush()
            sys.stderr.flush()
            os._exit(0)

    # ------------------------------------------------------------------ values helpers
    def concretize(self, v, candidates, what='index'):
        """v: symbolic int; fork over the candidate python ints that are feasible. Returns python int.
        Values outside `candidates` are asserted infeasible (else Unsupported)."""
        if not is_sym(v):
            return v
        v = z3.simplify(v)
        if z3.is_bv_value(v):
            return v.as_long()
        cands = list(candidates)
        conds = [v == c for c in cands]
        rest = z3.And([v != c for c in cands]) if cands else True
        conds.append(rest)
        i = self.choose(conds)
        if i == len(cands):
            raise Unsupported('symbolic %s outside the modelled range' % what)
        return cands[i]

    def truth(self, c):
        """fork on a (possibly symbolic) bool, return python bool"""
        if c is True or c is False:
            return c
        if is_sym(c):
            c2 = z3.simplify(c)
            if z3.is_true(c2):
                return True
            if z3.is_false(c2):
                return False
            i = self.choose([c, z3.Not(c)])
            return i == 0
        return bool(c)

    # ------------------------------------------------------------------ types
    def local_type(self, fn, n):
        return fn.locals.get(n, '?')

    def place_type(self, fn, place):
        t = fn.locals.get(place.local, '?')
        for pr in place.projs:
            k = pr[0]
            if k == 'field':
                t = pr[2]
            elif k == 'deref':
                t = deref_type(t) or '?'
            elif k in ('index', 'constindex'):
                t = elem_type(t) or '?'
            elif k == 'subslice':
                pass
        return t

    def operand_type(self, fn, op):
        k = op[0]
        if k == 'const':
            return self.const_type(op[1])
        if k == 'fnitem':
            return 'fn'
        return self.place_type(fn, op[1])

    def const_type(self, text):
        m = _re_int_const.match(text)
        if m:
            return m.group(2)
        if text in ('true', 'false'):
            return 'bool'
        m = _re_float_const.match(text)
        if m:
            return 'f' + m.group(2)
        if text.startswith("'"):
            return 'char'
        if text.startswith('"'):
            return '&str'
        if text.startswith('b"'):
            return '&[u8]'
        for k, (v, t) in SPECIAL_CONSTS.items():
            if text == k or text.endswith('::' + k) or text.endswith(k.replace('::', '>::')):
                return t
        if text.startswith('ZeroSized'):
            return text.split(': ', 1)[1]
        ent = self.find_const(text)
        if ent is not None:
            return ent[1]
        return '?'

    # ------------------------------------------------------------------ constants
    def find_const(self, text):
        if text.startswith('<') or '{' in text:
            key_text = text
        key = strip_generics(text).split('::')[-1] if not text.endswith(']') else None
        if text.endswith(']'):
            # promoted:  path::promoted[N]
            key = text[text.rfind('::') + 2:]
        segs_t = strip_generics(_squash_impl(text))
        best = None
        loose = []
        for mf in self.mfs:
            for ent in mf.consts.get(key, ()):
                name = ent[0]
                if name == text:
                    return ent
                nn = strip_generics(re.sub(r'<impl at [^>]*>', '<impl>', name))
                a = [s for s in nn.split('::') if s != '<impl>' and s]
                b = [s for s in segs_t.split('::') if s != '<impl>' and s]
                # suffix compatibility
                k = min(len(a), len(b))
                if a[-k:] == b[-k:]:
                    if best is None or len(a) > best[0]:
                        best = (len(a), ent)
                elif len(a) >= 2 and len(b) >= 2 and a[-2:] == b[-2:]:
                    # use site names the impl's type (`m::Type::<'_>::f::promoted[0]`), the definition its span
                    # (`m::<impl at ..>::f::promoted[0]`): same function + index, rank by common module prefix
                    pre = 0
                    for x, y in zip(a, b):
                        if x != y:
                            break
                        pre += 1
                    loose.append((pre, ent))
        if best:
            return best[1]
        if loose:
            loose.sort(key=lambda t: -t[0])
            if len(loose) == 1 or loose[0][0] > loose[1][0]:
                return loose[0][1]
        return None

    def eval_const(self, text):
        c = self.const_cache.get(text)
        if c is not None:
            return copy_value(c[0])
        v = self._eval_const(text)
        self.const_cache[text] = (v,)
        return copy_value(v)

    def _eval_const(self, text):
        m = _re_int_const.match(text)
        if m:
            return int(m.group(1))
        if text == 'true':
            return True
        if text == 'false':
            return False
        if text == '()':
            return UNIT
        m = _re_float_const.match(text)
        if m:
            s = m.group(1)
            if s == 'NaN':
                return math.nan
            return float(s)
        if text.startswith("'"):
            b = unescape(text[1:-1], False)
            return ord(bytes(b).decode('utf-8'))
        if text.startswith('"'):
            b = unescape(text[1:-1], False)
            return Slice(b, 0, len(b), True)
        if text.startswith('b"'):
            b = unescape(text[2:-1], True)
            return Ref([Agg(b, 'bytes')], 0)
        if text.startswith('ZeroSized: '):
            ty = text[11:]
            if ty.startswith('{closure@'):
                return Closure(ty, [])
            m2 = re.search(r'\{([^{}]*)\}$', ty)
            if ty.startswith('fn(') or ty.startswith('for<') or ty.startswith('unsafe fn') and m2:
                return FnItem(m2.group(1))
            return Agg([], strip_generics(ty))
        for k, (v, t) in SPECIAL_CONSTS.items():
            if text == k or text.endswith('::' + k) or text.endswith('<impl ' + k.replace('::', '>::')):
                return v
        ent = self.find_const(text)
        if ent is not None:
            name, ty, val = ent
            if isinstance(val, Fn):
                return self.run_fn(val, [])
            if val.startswith('const '):
                val = val[6:]
            return self._eval_const(val)
        if 'promoted[' in text:
            raise Unsupported('promoted const body not found: %r' % text)
        m = re.match(r'^([\w:]+) \{\{\s*\}\}$', text)
        if m:
            # a field-less braced struct constant prints as `Name {{  }}`
            d = self.td.lookup(strip_generics(m.group(1)))
            return Agg([], d.path if d is not None else m.group(1))
        # enum / struct constant written as a path or aggregate
        try:
            rv = parse_rvalue(text)
        except (Unsupported, ValueError):
            rv = None
        if rv is not None and rv[0] == 'adt':
            return self.build_adt(None, rv, None)
        raise Unsupported('const %r' % text)

    # ------------------------------------------------------------------ places
    def resolve(self, frame, place):
        """-> (lst, idx, slice)  slice != None when the place is an unsized [T]/str view"""
        lst = frame.locals
        idx = place.local
        sl = None
        for pr in place.projs:
            k = pr[0]
            if k == 'field':
                v = lst[idx]
                try:
                    lst = v.f
                except AttributeError:
                    raise Unsupported('field %d of %r (in %s)' % (pr[1], v, frame.fn.name))
                idx = pr[1]
            elif k == 'deref':
                v = lst[idx]
                t = type(v)
                if t is Ref:
                    lst, idx = v.lst, v.idx
                elif t is Slice:
                    sl = v
                    lst = None
                elif t is BoxV:
                    r = v.ptr()
                    lst, idx = r.lst, r.idx
                else:
                    raise Unsupported('deref of %r in %s' % (v, frame.fn.name))
            elif k == 'downcast':
                continue
            elif k == 'index':
                i = frame.locals[pr[1]]
                if sl is not None:
                    i = self.concretize(i, range(len(sl)))
                    if not (0 <= i < len(sl)):
                        raise Unsupported('index projection out of range (bounds assert missing?)')
                    lst, idx, sl = sl.lst, sl.lo + i, None
                else:
                    v = lst[idx]
                    i = self.concretize(i, range(len(v.f)))
                    lst, idx = v.f, i
            elif k == 'constindex':
                off, minlen, from_end = pr[1], pr[2], pr[3]
                if sl is not None:
                    n = len(sl)
                    i = n - off if from_end else off
                    lst, idx, sl = sl.lst, sl.lo + i, None
                else:
                    v = lst[idx]
                    n = len(v.f)
                    i = n - off if from_end else off
                    lst, idx = v.f, i
            elif k == 'subslice':
                a, b, from_end = pr[1], pr[2], pr[3]
                if sl is None:
                    v = lst[idx]
                    sl = Slice(v.f, 0, len(v.f), False)
                hi = sl.hi - b if from_end else sl.lo + b
                sl = Slice(sl.lst, sl.lo + a, hi, sl.is_str)
                lst = None
            else:
                raise Unsupported('projection %r' % (pr,))
        return lst, idx, sl

    def read_place(self, frame, place):
        if not place.projs:
            return frame.locals[place.local]
        lst, idx, sl = self.resolve(frame, place)
        if sl is not None:
            return sl
        return lst[idx]

    def write_place(self, frame, place, v):
        if not place.projs:
            frame.locals[place.local] = v
            return
        lst, idx, sl = self.resolve(frame, place)
        if sl is not None:
            raise Unsupported('write to unsized place')
        while idx >= len(lst):
            lst.append(None)
        lst[idx] = v

    def eval_operand(self, frame, op):
        k = op[0]
        if k == 'copy':
            p = op[1]
            if not p.projs:
                v = frame.locals[p.local]
            else:
                v = self.read_place(frame, p)
            t = type(v)
            if t is int or t is bool or t is Ref or t is float:
                return v
            if t is BoxV:
                # Box is not Copy: MIR only `copy`s a Box to take its pointer out (`no_retag copy (*_b)` followed by a
                # transmute of `.0.0`), which must alias the same allocation
                return v
            return copy_value(v)
        if k == 'move':
            p = op[1]
            if not p.projs:
                return frame.locals[p.local]
            return self.read_place(frame, p)
        if k == 'const':
            return self.eval_const(op[1])
        if k == 'fnitem':
            return FnItem(op[1])
        raise Unsupported('operand %r' % (op,))

    # ------------------------------------------------------------------ rvalues
    def build_adt(self, frame, rv, dest_ty):
        _, path, fields, named = rv
        vals = [self.eval_operand(frame, o) for (_, o) in fields]
        p = strip_generics(path)
        from .typedefs import StructDef, EnumDef
        _segs = p.split('::')
        _e = None
        if len(_segs) >= 2:
            try:
                _e = self.td.lookup('::'.join(_segs[:-1]))
            except Unsupported:
                _e = None
        if isinstance(_e, EnumDef) and _segs[-1] in _e.by_name:
            d = None        # an enum variant (`DisplaceData::Row`), not the struct of the same name
        else:
            d = self.td.lookup(p)
        if isinstance(d, StructDef):
            if named and d.fields and not d.tuple_like:
                names = [n for (n, _) in fields]
                if names != d.fields:
                    # MIR prints operands in declaration order; the source scan disagrees
                    if sorted(names) == sorted(d.fields):
                        order = {n: v for (n, _), v in zip(fields, vals)}
                        vals = [order[n] for n in d.fields]
                    else:
                        raise Unsupported('struct fields mismatch for %s: %s vs %s' % (p, names, d.fields))
            return Agg(vals, d.path)
        segs = p.split('::')
        if len(segs) >= 2:
            e = self.td.lookup('::'.join(segs[:-1]))
            if isinstance(e, EnumDef) and segs[-1] in e.by_name:
                vi = e.by_name[segs[-1]]
                vd = e.variants[vi]
                if named and vd[1] == 'struct':
                    names = [n for (n, _) in fields]
                    if names != vd[2]:
                        if sorted(names) == sorted(vd[2]):
                            order = {n: v for (n, _), v in zip(fields, vals)}
                            vals = [order[n] for n in vd[2]]
                        else:
                            raise Unsupported('variant fields mismatch %s' % p)
                return Enum(vi, vals, e.path)
        if isinstance(d, EnumDef):
            raise Unsupported('enum used as value: ' + p)
        if named or fields or d is None:
            # unknown (foreign) struct: MIR operand order is declaration order
            if dest_ty and False:
                pass
            if len(segs) >= 2 and segs[-1][:1].isupper() and segs[-2][:1].isupper() and d is None:
                raise Unsupported('unknown enum for variant %s' % p)
            return Agg(vals, p)
        return Agg([], p)

    def eval_rvalue(self, frame, rv):
        k = rv[0]
        if k == 'use':
            return self.eval_operand(frame, rv[1])
        if k == 'ref' or k == 'rawptr':
            place = rv[2]
            if not place.projs:
                return Ref(frame.locals, place.local)
            # &(*p) re-borrow of the same pointer
            if len(place.projs) == 1 and place.projs[0][0] == 'deref':
                v = frame.locals[place.local]
                if type(v) is Ref or type(v) is Slice:
                    return v
            lst, idx, sl = self.resolve(frame, place)
            if sl is not None:
                return sl
            return Ref(lst, idx)
        if k == 'binop':
            return self.binop(frame, rv)
        if k == 'unop':
            return self.unop(frame, rv)
        if k == 'cast':
            return self.cast(frame, rv)
        if k == 'discr':
            v = self.read_place(frame, rv[1])
            return self.discriminant(v)
        if k == 'adt':
            return self.build_adt(frame, rv, None)
        if k == 'tuple':
            if not rv[1]:
                return UNIT
            return Agg([self.eval_operand(frame, o) for o in rv[1]], 'tuple')
        if k == 'array':
            return Agg([self.eval_operand(frame, o) for o in rv[1]], 'array')
        if k == 'repeat':
            v = self.eval_operand(frame, rv[1])
            n = rv[2]
            m = re.match(r'^(?:const )?(\d+)(?:_usize)?$', n)
            if not m:
                n = self.eval_const(n.replace('const ', ''))
            else:
                n = int(m.group(1))
            return Agg([copy_value(v) for _ in range(n)], 'array')
        if k == 'closure':
            return self.build_closure(frame, rv)
        if k == 'len':
            lst, idx, sl = self.resolve(frame, rv[1])
            if sl is not None:
                return len(sl)
            return len(lst[idx].f)
        if k == 'nullop':
            if rv[1] in ('UbChecks', 'ContractChecks'):
                return False
            if rv[1] == 'OverflowChecks':
                return True
            raise Unsupported('nullop ' + rv[1])
        if k == 'shallowinitbox':
            raise Unsupported('ShallowInitBox')
        raise Unsupported('rvalue kind ' + k)

    def build_closure(self, frame, rv):
        """closure aggregate.  rustc's MIR printer zips the operands with the *names of the captured variables*, so when a
        variable is captured field by field (`self.a`, `self.b` ...) only the first operand per variable is printed.  The
        omitted operands are the temporaries assigned between the last printed operand and the aggregate in the same
        block; they are recovered from there and checked against the number of captures the closure body uses."""
        fields = [self.eval_operand(frame, o) for (_, o) in rv[2]]
        if self.closure_index is None:
            self.build_closure_index()
        body = self.closure_index.get(rv[1])
        if body is None:
            return Closure(rv[1], fields)
        need = self._closure_ncaptures(body)
        if need <= len(fields):
            return Closure(rv[1], fields)
        blk, si = getattr(self, 'cur_stmt', (None, None))
        extra = []
        if blk is not None and rv[2]:
            last_op = rv[2][-1][1]
            last_local = last_op[1].local if last_op[0] in ('copy', 'move') and not last_op[1].projs else None
            j = si - 1
            cand = []
            while j >= 0:
                st = blk.stmts[j]
                if st[0] == 'assign' and not st[1].projs:
                    if st[1].local == last_local:
                        break
                    cand.append(st[1].local)
                j -= 1
            else:
                cand = None
            if cand is not None:
                cand.reverse()
                extra = [frame.locals[n] for n in cand]
        if len(fields) + len(extra) != need:
            raise Unsupported('closure %s: %d captures used by the body, %d printed, %d recovered' % (rv[1], need, len(fields), len(extra)))
        return Closure(rv[1], fields + extra)

    def _closure_ncaptures(self, fn):
        n = getattr(fn, 'ncaptures', None) if hasattr(fn, '__dict__') else None
        cache = self.__dict__.setdefault('_ncap_cache', {})
        if fn.name in cache:
            return cache[fn.name]
        mx = -1
        lines = fn.src.lines
        for i in range(fn.start, fn.end):
            for m in re.finditer(r'\(\*?_1\)?\.(\d+):', lines[i]):
                mx = max(mx, int(m.group(1)))
            for m in re.finditer(r'\(_1\.(\d+):', lines[i]):
                mx = max(mx, int(m.group(1)))
        cache[fn.name] = mx + 1
        return mx + 1

    def discriminant(self, v):
        if type(v) is Enum:
            from .typedefs import EnumDef
            d = self.td.lookup(v.ty) if v.ty else None
            if d is not None and isinstance(d, EnumDef):
                return d.discr[v.v]
            return v.v
        raise Unsupported('discriminant of %r' % (v,))

    def scalar_kind(self, ty, a=None, b=None):
        ty = ty.strip()
        if ty in INT_TYPES:
            return ('int',) + INT_TYPES[ty]
        if ty == 'bool':
            return ('bool',)
        if ty == 'f64':
            return ('float', ops.F64)
        if ty == 'f32':
            return ('float', ops.F32)
        # unknown static type (generic): infer from runtime values
        for v in (a, b):
            if isinstance(v, bool):
                return ('bool',)
            if isinstance(v, float):
                return ('float', ops.F64)
            if is_sym(v):
                s = v.sort()
                if s.kind() == z3.Z3_BOOL_SORT:
                    return ('bool',)
                if s.kind() == z3.Z3_FLOATING_POINT_SORT:
                    return ('float', s)
        if ty.startswith('*') or ty.startswith('&'):
            return ('ptr',)
        raise Unsupported('scalar kind of type %r' % ty)

    def binop(self, frame, rv):
        _, op, oa, ob = rv
        a = self.eval_operand(frame, oa)
        b = self.eval_operand(frame, ob)
        ty = self.operand_type(frame.fn, oa)
        if ty == '?':
            ty = self.operand_type(frame.fn, ob)
        sk = self.scalar_kind(ty, a, b)
        if sk[0] == 'int':
            if op == 'Cmp':
                return self.cmp3(ops.int_binop('Lt', a, b, sk[1], sk[2]), ops.int_binop('Eq', a, b, sk[1], sk[2]))
            if self.div_lemma and op in ('Div', 'Rem') and sk[1] == 64 and is_sym(a) and not is_sym(b) and b not in (0, -1):
                # 64-bit division by a constant does not come back from the bit-blaster: introduce the quotient and
                # remainder as fresh variables tied to the dividend by the division lemma (truncating division:
                # a = q*d + r, |r| < |d|, r has the sign of a).  Exact: q and r are uniquely determined.
                w, signed = sk[1], sk[2]
                q = self.fresh('divq', z3.BitVecSort(w))
                r = self.fresh('divr', z3.BitVecSort(w))
                d = z3.BitVecVal(b, w)
                ad = abs(b)
                if signed:
                    # no overflow in q*d + r: q bounded by |a|/|d|
                    lim = (1 << (w - 1)) // ad + 1
                    self.add(z3.And(q >= -lim, q <= lim))
                    self.add(a == q * d + r)
                    self.add(z3.And(r > -ad, r < ad))
                    self.add(z3.Or(r == 0, (r > 0) == (a > 0)))
                else:
                    lim = (1 << w) // ad + 1
                    self.add(z3.ULE(q, lim))
                    self.add(a == q * d + r)
                    self.add(z3.ULT(r, ad))
                self.assumptions.add('64-bit division by a constant encoded with fresh quotient/remainder and the division lemma')
                return q if op == 'Div' else r
            return ops.int_binop(op, a, b, sk[1], sk[2])
        if sk[0] == 'bool':
            return ops.bool_binop(op, a, b)
        if sk[0] == 'float':
            if op == 'Rem' and (is_sym(a) or is_sym(b)):
                raise Unsupported('symbolic float %')
            return ops.float_binop(op, a, b, sk[1])
        if sk[0] == 'ptr':
            if op in ('Eq', 'Ne'):
                same = (type(a) is type(b)) and (
                    (type(a) is Ref and a.lst is b.lst and a.idx == b.idx) or
                    (type(a) is Slice and a.lst is b.lst and a.lo == b.lo and a.hi == b.hi))
                return same if op == 'Eq' else not same
        raise Unsupported('binop %s on %s' % (op, ty))

    def cmp3(self, lt, eq):
        from .typedefs import STD_ENUMS
        if self.truth(lt):
            return Enum(0, [], 'Ordering')
        if self.truth(eq):
            return Enum(1, [], 'Ordering')
        return Enum(2, [], 'Ordering')

    def unop(self, frame, rv):
        _, op, oa = rv
        a = self.eval_operand(frame, oa)
        if op == 'PtrMetadata':
            if type(a) is Slice:
                return len(a)
            if type(a) is Ref:
                v = a.get()
                if hasattr(v, 'f'):
                    return len(v.f)
            return UNIT
        ty = self.operand_type(frame.fn, oa)
        sk = self.scalar_kind(ty, a)
        if op == 'Not':
            if sk[0] == 'bool':
                return ops.bool_not(a)
            if sk[0] == 'int':
                if is_sym(a):
                    return ~a
                return ops.norm_int(~a, sk[1], sk[2])
        if op == 'Neg':
            if sk[0] == 'int':
                if is_sym(a):
                    return -a
                return ops.norm_int(-a, sk[1], sk[2])
            if sk[0] == 'float':
                if is_sym(a):
                    return z3.fpNeg(a)
                return -a
        raise Unsupported('unop %s on %s' % (op, ty))

    def cast(self, frame, rv):
        _, oa, ty, kind = rv
        a = self.eval_operand(frame, oa)
        if kind == 'IntToInt':
            sty = self.operand_type(frame.fn, oa)
            if sty == 'bool' or isinstance(a, bool) or (is_sym(a) and z3.is_bool(a)):
                dw, ds = INT_TYPES[ty]
                return ops.int_to_int(a, 8, False, dw, ds)
            if sty not in INT_TYPES:
                if type(a) is Enum:
                    a = self.discriminant(a)
                    sty = 'isize'
                else:
                    raise Unsupported('IntToInt from %s' % sty)
            sw, ss = INT_TYPES[sty]
            dw, ds = INT_TYPES[ty]
            return ops.int_to_int(a, sw, ss, dw, ds)
        if kind == 'IntToFloat':
            sty = self.operand_type(frame.fn, oa)
            sw, ss = INT_TYPES.get(sty, (64, True))
            return ops.int_to_float(a, sw, ss, ops.F64 if ty == 'f64' else ops.F32)
        if kind == 'FloatToInt':
            dw, ds = INT_TYPES[ty]
            return ops.float_to_int(a, dw, ds)
        if kind == 'FloatToFloat':
            if ty == 'f64' and not is_sym(a):
                return a
            raise Unsupported('FloatToFloat')
        if kind.startswith('PointerCoercion(Unsize'):
            if type(a) is Ref:
                v = a.get()
                if type(v) is Agg and v.ty in ('array', 'bytes') and ('[' in ty):
                    return Slice(v.f, 0, len(v.f), False)
                return a
            if type(a) is BoxV:
                return a
            return a
        if kind.startswith('PointerCoercion') or kind in ('PtrToPtr', 'Transmute', 'PointerExposeProvenance',
                                                          'PointerWithExposedProvenance', 'FnPtrToPtr'):
            if kind == 'Transmute':
                sty = self.operand_type(frame.fn, oa)
                if sty == 'f64' and ty == 'u64':
                    return z3.fpToIEEEBV(a) if is_sym(a) else ops.float_bits(a)
                if sty == 'u64' and ty == 'f64':
                    return z3.fpBVToFP(a, ops.F64) if is_sym(a) else ops.bits_float(a)
                if sty == 'u32' and ty == 'char':
                    return a
                # NonNull<T> { pointer } -> *const T
                if ty.startswith('*') and type(a) is Agg and len(a.f) == 1 and type(a.f[0]) is Ref:
                    return a.f[0]
            return a
        raise Unsupported('cast kind %s' % kind)

    # ------------------------------------------------------------------ execution
    def run_fn(self, fn, args):
        mf = fn.src
        if not fn.parsed:
            mf.parse_body(fn)
        self.fns_entered.add(fn.name)
        locs = [None] * fn.nlocals
        for (n, _), a in zip(fn.params, args):
            locs[n] = a
        frame = Frame(fn, locs)
        self.depth += 1
        if self.depth > self.max_depth:
            raise Inconclusive('call depth budget exceeded in %s' % fn.name)
        self.callstack.append(fn.name)
        blocks = fn.blocks
        bb = 0
        try:
            while True:
                blk = blocks[bb]
                if blk.stmts is None:
                    try:
                        mf.parse_block(fn, bb)
                    except Unsupported as e:
                        raise Unsupported('%s [parsing %s bb%d]' % (e, fn.name, bb))
                self.steps += 1
                if self.steps > self.max_steps:
                    raise Inconclusive('step budget (unwinding assertion) exceeded in %s' % fn.name)
                for si, st in enumerate(blk.stmts):
                    sk = st[0]
                    if sk == 'assign':
                        if st[2][0] == 'closure':
                            self.cur_stmt = (blk, si)
                        v = self.eval_rvalue(frame, st[2])
                        p = st[1]
                        if not p.projs:
                            locs[p.local] = v
                        else:
                            self.write_place(frame, p, v)
                    elif sk == 'nop':
                        pass
                    elif sk == 'setdiscr':
                        self.set_discr(frame, st[1], st[2])
                    elif sk == 'assume':
                        pass
                    else:
                        raise Unsupported('stmt ' + sk)
                t = blk.term
                tk = t[0]
                if tk == 'goto':
                    bb = t[1]
                elif tk == 'switch':
                    bb = self.do_switch(frame, t)
                elif tk == 'call':
                    dest, callee, aops, ret = t[1], t[2], t[3], t[4]
                    args2 = [self.eval_operand(frame, o) for o in aops]
                    r = self.do_call(frame, callee, args2, dest)
                    if ret is None:
                        raise Unsupported('diverging call returned: ' + callee)
                    if dest is not None:
                        if not dest.projs:
                            locs[dest.local] = r
                        else:
                            self.write_place(frame, dest, r)
                    bb = ret
                elif tk == 'return':
                    return locs[0]
                elif tk == 'drop':
                    bb = t[2]
                elif tk == 'assert':
                    self.do_assert(frame, t)
                    bb = t[4]
                elif tk == 'unreachable':
                    raise Unsupported('reached `unreachable` in %s bb%d' % (fn.name, bb))
                else:
                    raise Unsupported('terminator ' + tk)
        except Unsupported as e:
            if not getattr(e, 'stack', None):
                e.stack = list(self.callstack)
            raise
        finally:
            self.depth -= 1
            self.callstack.pop()

    def set_discr(self, frame, place, idx):
        v = self.read_place(frame, place)
        if type(v) is Enum:
            from .typedefs import EnumDef
            d = self.td.lookup(v.ty)
            v.v = d.by_discr[idx] if isinstance(d, EnumDef) else idx
            return
        raise Unsupported('SetDiscriminant on %r' % (v,))

    def do_switch(self, frame, t):
        _, op, arms, other = t
        v = self.eval_operand(frame, op)
        if not is_sym(v):
            if v is True:
                v = 1
            elif v is False:
                v = 0
            for val, bb in arms:
                if v == val:
                    return bb
            # signed discriminants print as unsigned (of the discriminant's width: Ordering::Less is 255)
            if isinstance(v, int) and v < 0:
                for val, bb in arms:
                    for w in (8, 16, 32, 64, 128):
                        if val >= (1 << (w - 1)) and val < (1 << w) and v == val - (1 << w):
                            return bb
            return other
        if z3.is_bool(v):
            conds = []
            tg = []
            for val, bb in arms:
                conds.append(v if val == 1 else z3.Not(v))
                tg.append(bb)
            if len(arms) == 1:
                conds.append(z3.Not(conds[0]))
                tg.append(other)
            i = self.choose(conds)
            return tg[i]
        w = v.size()
        conds = [v == z3.BitVecVal(val & ((1 << w) - 1), w) for val, _ in arms]
        tg = [bb for _, bb in arms]
        ob = frame.fn.blocks.get(other)
        if not (ob is not None and ob.raw_term == 'unreachable;' and not ob.raw_stmts):
            conds.append(z3.And([z3.Not(c) for c in conds]) if conds else True)
            tg.append(other)
            i = self.choose(conds)
        else:
            i = self.choose(conds, exhaustive=True)
        return tg[i]

    def do_assert(self, frame, t):
        _, cop, expected, msg, target = t
        c = self.eval_operand(frame, cop)
        if not expected:
            c = ops.bool_not(c)
        if c is True:
            return
        kind = 'overflow' if 'overflow' in msg else ('bounds' if 'index out of bounds' in msg else (
            'divzero' if 'divide by zero' in msg or 'remainder with a divisor of zero' in msg else 'assert'))
        if c is False:
            raise RustPanic(msg, kind, frame.fn.name)
        if self.truth(c):
            return
        raise RustPanic(msg, kind, frame.fn.name)

    # ------------------------------------------------------------------ calls
    def build_closure_index(self):
        self.closure_index = {}
        for mf in self.mfs:
            for fn in mf.fns:
                if fn.params and '{closure@' in fn.params[0][1] and fn.last.startswith('{closure#'):
                    t = fn.params[0][1]
                    i = t.index('{closure@')
                    span = t[i:find_matching(t, i) + 1]
                    self.closure_index.setdefault(span, fn)

    def call_callable(self, f, args):
        """call a closure value / fn item / fn pointer with python-list args"""
        if type(f) is Ref:
            f = f.get()
        if isinstance(f, Closure):
            if self.closure_index is None:
                self.build_closure_index()
            fn = self.closure_index.get(f.span)
            if fn is None:
                raise Unsupported('closure body not found: ' + f.span)
            self_ty = fn.params[0][1]
            env = Ref([f], 0) if self_ty.startswith('&') else f
            return self.run_fn(fn, [env] + list(args))
        if isinstance(f, FnItem):
            return self.call_path(f.path, list(args), None, None)
        if isinstance(f, BoxV):
            return self.call_callable(f.ptr().get(), args)
        if hasattr(f, 'py_call'):
            return f.py_call(self, args)
        raise Unsupported('call of %r' % (f,))

    def do_call(self, frame, callee, args, dest):
        if callee.startswith('move ') or callee.startswith('copy '):
            from .mirparse import parse_operand
            f = self.eval_operand(frame, parse_operand(callee))
            return self.call_callable(f, args)
        dest_ty = self.place_type(frame.fn, dest) if dest is not None else None
        return self.call_path(callee, args, dest_ty, frame)

    def call_path(self, callee, args, dest_ty, frame):
        ci = self.callinfo.get(callee)
        if ci is None:
            ci = self.analyze_callee(callee)
            self.callinfo[callee] = ci
        k = ci.kind
        if self.trace_calls:
            sys.stderr.write('%s%s\n' % ('  ' * self.depth, callee[:150]))
        if k == 'mir':
            nd = getattr(ci, 'nderef', 0)
            if nd:
                args = list(args)
                for i, v in enumerate(args):
                    for _ in range(nd):
                        if type(v) is Ref and type(v.get()) is Ref:
                            v = v.get()
                    args[i] = v
            return self.run_fn(ci.fn, args)
        if k == 'rt':
            return ci.model(self, ci, args)
        if k == 'model':
            self.models_used.add(ci.key)
            return ci.model(self, ci, args, dest_ty)
        if k == 'dyn':
            return self.call_dyn(ci, args, dest_ty)
        raise Unsupported('no MIR body and no model for call: %s  [key %s]' % (callee, ci.key))

    def runtime_type(self, v):
        seen = 0
        while type(v) is Ref and seen < 8:
            v = v.get()
            seen += 1
        if isinstance(v, (Agg, Enum)) and not isinstance(v, (BoxV, Closure)):
            return v.ty
        return None

    def call_dyn(self, ci, args, dest_ty):
        """trait method on a generic Self: dispatch on the runtime value"""
        rt_ty = self.runtime_type(args[0]) if args else None
        if rt_ty and rt_ty not in ('tuple', 'array', 'bytes'):
            fn = self.resolve_trait_impl(rt_ty, ci.trait, ci.method)
            if fn is not None:
                return self.run_fn(fn, args)
        m = self.models.get(ci.key)
        if m is None:
            raise Unsupported('dynamic dispatch: no impl/model for %s on %r' % (ci.key, rt_ty))
        self.models_used.add(ci.key)
        return m(self, ci, args, dest_ty)

    def analyze_callee(self, text):
        ci = CallInfo()
        ci.text = text
        ci.fn = None
        ci.model = None
        ci.self_ty = None
        ci.trait = None
        ci.impl_ty = None
        ci.generics = []
        ci.nderef = 0
        ci.fallback_fn = None
        segs = split_path(text)
        ci.segs = segs
        # generics of the final segment
        if len(segs) >= 2 and segs[-1].startswith('<') and ' as ' not in segs[-1]:
            ci.generics = split_top(segs[-1][1:-1])
            segs = segs[:-1]
        ci.method = segs[-1]
        ci.name = ci.method
        if ci.method.startswith('vrt_'):
            m = self.rt.get(ci.method[4:])
            if m is None:
                raise Unsupported('no intercept for ' + ci.method)
            if m is not None:
                ci.kind = 'rt'
                ci.model = m
                ci.key = 'rt::' + ci.method
                return ci
        first = segs[0]
        if first.startswith('<') and find_top(first[1:-1], ' as ') >= 0:
            inner = first[1:-1]
            k = find_top(inner, ' as ')
            ci.self_ty = inner[:k].strip()
            ci.trait = inner[k + 4:].strip()
            tname = strip_generics(ci.trait).split('::')[-1]
            ci.key = '%s::%s' % (tname, ci.method)
            sty = ci.self_ty
            if _re_generic_param.match(strip_ref(sty)) or sty.startswith('<'):
                ci.kind = 'dyn'
                ci.trait = tname
                return ci
            fn = self.resolve_trait_impl(sty, tname, ci.method, ci.trait)
            ci.trait = tname
            if fn is not None:
                ci.kind = 'mir'
                ci.fn = fn
                # `<&T as PartialEq<&U>>::eq(&&t, &&u)` forwards to T's impl: strip the extra reference level
                nref = 0
                t = sty.strip()
                while t.startswith('&'):
                    nref += 1
                    t = t[1:].lstrip()
                    if t.startswith("'"):
                        t = t.split(' ', 1)[1] if ' ' in t else ''
                    if t.startswith('mut '):
                        t = t[4:]
                if nref and tname in ('PartialEq', 'PartialOrd', 'Ord') and fn.params and fn.params[0][1].startswith('&'):
                    ci.nderef = nref
                return ci
            m = self.models.get(ci.key)
            # more specific key first:  Trait::method@TypeHead
            m2 = self.models.get('%s@%s' % (ci.key, type_head(sty)))
            if m2 is not None:
                ci.kind = 'model'
                ci.model = m2
                ci.key = '%s@%s' % (ci.key, type_head(sty))
                return ci
            if m is not None:
                ci.kind = 'model'
                ci.model = m
                return ci
            ci.kind = 'none'
            return ci
        # non-trait path
        plain = [s for s in segs if not (s.startswith('<') and not s.startswith('<impl '))]
        impl_ty = None
        for s in plain:
            if s.startswith('<impl '):
                impl_ty = s[6:-1]
        ci.impl_ty = impl_ty
        fn = self.resolve_path_fn(plain, impl_ty)
        if fn is not None:
            icp = self.crate_intercept_for(fn)
            if icp is not None:
                ci.kind = 'model'
                ci.model = icp[1]
                ci.key = 'intercept:' + icp[0]
                ci.fallback_fn = fn
                return ci
            ci.kind = 'mir'
            ci.fn = fn
            ci.key = fn.name
            return ci
        if impl_ty is not None:
            head = type_head(impl_ty)
            ci.key = '%s::%s' % (head, ci.method)
        else:
            ps = [strip_generics(s) for s in plain]
            ci.key = '::'.join(ps[-2:]) if len(ps) >= 2 else ps[-1]
        m = self.models.get(ci.key)
        if m is not None:
            ci.kind = 'model'
            ci.model = m
            return ci
        ci.kind = 'none'
        return ci

    def crate_intercept_for(self, fn):
        """crate functions cut at a named boundary (DESIGN 3.3): key = `Type::method` for inherent
        methods, `module::function` for free functions"""
        ics = getattr(self, 'crate_intercepts', None)
        if not ics:
            return None
        if fn.impl_span:
            selfn, tr = self._impl_desc(fn)
            if tr is None:
                k = '%s::%s' % (selfn, fn.last)
            else:
                k = '%s::%s@%s' % (tr, fn.last, selfn)
        else:
            ms = [strip_generics(x) for x in fn.mod_path if not x.startswith('<impl')]
            k = '::'.join(ms[-2:])
            if k not in ics and ms and ('fn ' + ms[-1]) in ics:
                k = 'fn ' + ms[-1]      # rustc prints free functions without their module path
        f = ics.get(k)
        return (k, f) if f is not None else None

    def _impl_desc(self, fn):
        """(self type name, trait name or None) of the impl block fn lives in"""
        d = fn.key
        if d is not None:
            return d
        txt = fn.src.impl_header_text(fn)
        selfn, trait = None, None
        if txt:
            t = txt.strip()
            if t.startswith('impl'):
                t = t[4:].strip()
                if t.startswith('<'):
                    t = t[find_matching(t, 0) + 1:].strip()
                k = find_top(t, ' for ')
                if k >= 0:
                    trait = strip_generics(t[:k].strip()).split('::')[-1]
                    selfn = type_head(t[k + 5:].strip())
                else:
                    selfn = type_head(t)
            else:
                trait = strip_generics(t).split('::')[-1]
                if fn.params:
                    selfn = type_head(fn.params[0][1])
                else:
                    selfn = type_head(fn.ret)
        d = (selfn, trait)
        fn.key = d
        return d

    def resolve_trait_impl(self, self_ty, trait, method, trait_full=None):
        want = type_head(self_ty)
        found = []
        for mf in self.mfs:
            for fn in mf.by_last.get(method, ()):
                if not fn.impl_span:
                    continue
                if fn.mod_path[-1] != method and strip_generics(fn.mod_path[-1]) != method:
                    continue
                selfn, tr = self._impl_desc(fn)
                if tr == trait and selfn == want:
                    found.append(fn)
        if not found:
            return None
        if len(found) > 1 and trait_full and '<' in trait_full:
            # several impls of one generic trait (`Add<TimeDelta>`, `Add<Months>` ...): match the trait's type argument
            garg = split_top(trait_full[trait_full.index('<') + 1:trait_full.rindex('>')])[0]
            gh = type_head(garg)
            sel = []
            for f in found:
                txt = f.src.impl_header_text(f) or ''
                k = find_top(txt, ' for ')
                head = txt[:k] if k >= 0 else txt
                if re.search(r'<\s*(?:[\w:]*::)?%s\s*>' % re.escape(gh), head):
                    sel.append(f)
            if len(sel) == 1:
                return sel[0]
        if len(found) > 1:
            # same type name in different modules: use module hint from the printed type
            hint = strip_generics(strip_ref(self_ty)).split('::')
            best = [f for f in found if len(hint) > 1 and hint[-2] in ''.join(f.impl_span[0])]
            if len(best) == 1:
                return best[0]
            raise Unsupported('ambiguous trait impl %s for %s::%s' % (trait, self_ty, method))
        return found[0]

    def resolve_path_fn(self, plain, impl_ty):
        method = strip_generics(plain[-1])
        want = [strip_generics(s) for s in plain if not s.startswith('<impl ')]
        cands = []
        for mf in self.mfs:
            for fn in mf.by_last.get(method, ()):
                if fn.kind != 'fn':
                    continue
                cands.append(fn)
        if not cands:
            return None
        out = []
        for fn in cands:
            segs = [strip_generics(s) for s in fn.mod_path]
            has_impl = fn.impl_span is not None
            msegs = [s for s in segs if not s.startswith('<impl')]
            msegs = [s for s in msegs if s]
            if impl_ty is not None:
                if not has_impl:
                    continue
                selfn, tr = self._impl_desc(fn)
                if tr is not None or selfn != type_head(impl_ty):
                    continue
                k = min(len(msegs), len(want))
                if msegs[-k:] == want[-k:] or True:
                    out.append((fn, msegs[-k:] == want[-k:]))
            else:
                if not has_impl:
                    k = min(len(msegs), len(want))
                    if k and msegs[-k:] == want[-k:]:
                        out.append((fn, True))
                else:
                    # call printed as Type::method for an inherent impl
                    if len(want) >= 2:
                        selfn, tr = self._impl_desc(fn)
                        if tr is None and selfn == want[-2]:
                            out.append((fn, True))
        if not out:
            return None
        exact = [f for f, ok in out if ok]
        if len(exact) == 1:
            return exact[0]
        if len(exact) > 1:
            # prefer longest module-path agreement
            def score(f):
                ms = [strip_generics(s) for s in f.mod_path if not s.startswith('<impl')]
                w2 = want
                if f.impl_span is not None and len(want) >= 2:
                    # `m::Type::method` at the use site vs `m::<impl>::method` at the definition: drop the type segment
                    selfn = self._impl_desc(f)[0]
                    if want[-2] == selfn:
                        w2 = want[:-2] + want[-1:]
                n = 0
                for a, b in zip(reversed(ms), reversed(w2)):
                    if a != b:
                        break
                    n += 1
                return n
            exact.sort(key=score, reverse=True)
            if score(exact[0]) > score(exact[1]):
                return exact[0]
            raise Unsupported('ambiguous callee %s: %s' % ('::'.join(plain), [f.name for f in exact][:4]))
        if len(out) == 1:
            return out[0][0]
        raise Unsupported('ambiguous callee %s' % '::'.join(plain))

    # ------------------------------------------------------------------ harness driver
    def model_values(self):
        """solve pc, return dict term-name -> python value for all inputs, plus evaluator"""
        if not self.check_sat(None, 'q_assert'):
            return None
        return self.model()

    def eval_in_model(self, m, v):
        if not is_sym(v):
            if isinstance(v, float):
                return {'f64': ops.float_bits(v)}
            return v
        r = m.eval(v, model_completion=True)
        if z3.is_bool(r):
            return z3.is_true(r)
        if z3.is_bv(r):
            return r.as_long()
        if z3.is_fp(r):
            # fp.to_ieee_bv of NaN is unspecified in SMT-LIB (z3 may answer 0): give NaN its canonical bits
            if z3.is_true(m.eval(z3.fpIsNaN(r), model_completion=True)):
                return {'f64': 0x7ff8000000000000}
            b = m.eval(z3.fpToIEEEBV(r), model_completion=True)
            return {'f64': b.as_long()}
        return str(r)
