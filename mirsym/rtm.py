"""Intercepts for the harness runtime (`verif::rt::*`) and the per-path bookkeeping."""
import json, os, sys, time, traceback
import z3
from .mirparse import Unsupported
from .values import *
from . import ops
from .ops import is_sym, bool_and, bool_not
from .mcore import deref, deref1, str_bytes, concrete_bytes
from .interp import Engine, PathEnd, RustPanic, Inconclusive

RT = {}


def rt(name):
    def deco(f):
        RT[name] = f
        return f
    return deco


SORTS = {'u8': 8, 'i8': 8, 'u16': 16, 'i16': 16, 'i32': 32, 'u32': 32, 'i64': 64, 'u64': 64, 'usize': 64, 'isize': 64}


def _any_int(ty):
    def f(eng, ci, a):
        k = len(eng.inputs)
        v = z3.BitVec('in%d_%s' % (k, ty), SORTS[ty])
        eng.inputs.append((ty, v))
        return v
    return f


for _t in SORTS:
    RT['any_' + _t] = _any_int(_t)


@rt('any_bool')
def _(eng, ci, a):
    k = len(eng.inputs)
    v = z3.Bool('in%d_bool' % k)
    eng.inputs.append(('bool', v))
    return v


@rt('any_f64')
def _(eng, ci, a):
    k = len(eng.inputs)
    v = z3.FP('in%d_f64' % k, ops.F64)
    eng.inputs.append(('f64', v))
    return v


@rt('any_ascii')
def _(eng, ci, a):
    """u8 < 0x80, known-ASCII to the string models"""
    k = len(eng.inputs)
    v = z3.BitVec('in%d_u8' % k, 8)
    eng.inputs.append(('u8', v))
    eng.add(z3.ULT(v, 0x80))
    eng.ascii_ok.add(v.get_id())
    return v


def text_of(v):
    cb = concrete_bytes(str_bytes(v))
    return cb.decode('utf-8', 'replace') if cb is not None else '<symbolic>'


@rt('assume')
def _(eng, ci, a):
    c = a[0]
    if c is True:
        return UNIT
    if c is False:
        raise PathEnd('assume-false')
    c = z3.simplify(c)
    if z3.is_true(c):
        return UNIT
    if eng.in_replay():
        eng.add(c)
        return UNIT
    if z3.is_false(c) or not eng.check_sat(c):
        raise PathEnd('assume-false')
    eng.add(c)
    return UNIT


def record_violation(eng, check_id, cond_fail, kind='check', extra=None):
    """cond_fail: z3 Bool (or True) under which the check fails; solver has just answered sat for pc ∧ cond_fail"""
    if not eng.check_sat(None if cond_fail is True else cond_fail, 'q_assert'):
        return
    m = eng.model()
    rec = {'type': 'violation', 'harness': eng.cur_harness, 'check': check_id, 'kind': kind,
           'inputs': eng.dump_inputs(m), 'trace': eng.dump_trace(m),
           'decisions': eng.decisions[-50:]}
    if extra:
        rec.update(extra)
    eng.emit(rec)


@rt('check')
def _(eng, ci, a):
    """assertion: one query `pc /\\ not ok`.  A check does not constrain the rest of the path (later checks are
    decided over all states that reach them, whatever earlier checks said), so one failing check cannot mask another."""
    cid = text_of(a[0])
    okv = a[1]
    eng.check_sites[cid] = eng.check_sites.get(cid, 0) + 1
    if okv is True:
        eng.events.append(('chk', cid, 1))
        return UNIT
    if okv is False:
        eng.events.append(('chk', cid, 0))
        if not eng.in_replay():
            record_violation(eng, cid, True)
        return UNIT
    eng.events.append(('chk', cid, okv))
    if eng.in_replay():
        return UNIT
    bad = z3.Not(okv)
    try:
        failing = eng.check_sat(bad, 'q_assert')
    except Inconclusive as u:
        raise Inconclusive('%s [assertion query of check %s]' % (u, cid))
    if failing:
        record_violation(eng, cid, bad)
    return UNIT


@rt('check_kf')
def _(eng, ci, a):
    """check(id, ok) with a known-finding class: failures inside `in_class` are KNOWN-FINDING kf, outside VIOLATION"""
    cid = text_of(a[0])
    okv = a[1]
    kf = text_of(a[2])
    cls = a[3]
    eng.check_sites[cid] = eng.check_sites.get(cid, 0) + 1
    if okv is True:
        eng.events.append(('chk', cid, 1))
        return UNIT
    okz = okv if is_sym(okv) else z3.BoolVal(bool(okv))
    clz = cls if is_sym(cls) else z3.BoolVal(bool(cls))
    eng.events.append(('chk', cid, okv if is_sym(okv) else (1 if okv else 0)))
    if eng.in_replay():
        return UNIT
    bad_out = z3.And(z3.Not(okz), z3.Not(clz))
    bad_in = z3.And(z3.Not(okz), clz)
    try:
        if eng.check_sat(bad_out, 'q_assert'):
            record_violation(eng, cid, bad_out)
        if eng.check_sat(bad_in, 'q_assert'):
            record_violation(eng, cid, bad_in, kind='known', extra={'kf': kf})
    except Inconclusive as u:
        raise Inconclusive('%s [assertion query of check %s]' % (u, cid))
    return UNIT


@rt('reach')
def _(eng, ci, a):
    eng.events.append(('reach', text_of(a[0])))
    return UNIT


def _observe(kind):
    def f(eng, ci, a):
        eng.events.append(('obs', text_of(a[0]), kind, a[1]))
        return UNIT
    return f


for _k in ('i64', 'u64', 'bool', 'f64', 'i32', 'u32', 'usize'):
    RT['observe_' + _k] = _observe(_k)


@rt('observe_str')
def _(eng, ci, a):
    bs = str_bytes(a[1])
    eng.events.append(('obs', text_of(a[0]), 'str', list(bs)))
    return UNIT


@rt('opaque_str')
def _(eng, ci, a):
    return StrV(None, lambda: (_ for _ in ()).throw(Unsupported('contents of an opaque string')))


# ----------------------------------------------------------------------------- engine extensions

def _require_ascii(self, b):
    if not is_sym(b):
        return
    i = b.get_id()
    if i in self.ascii_ok:
        return
    if self.in_replay():
        self.ascii_ok.add(i)
        return
    if self.check_sat(z3.UGE(b, z3.BitVecVal(0x80, b.size()))):
        raise Unsupported('symbolic byte/char not constrained to ASCII reached a text operation')
    self.ascii_ok.add(i)


Engine.require_ascii = _require_ascii
Engine.require_ascii_char = _require_ascii


def _dump_inputs(self, m):
    out = []
    for ty, term in self.inputs:
        v = self.eval_in_model(m, term)
        if ty == 'f64':
            out.append(['f64', v['f64']])
        elif ty == 'bool':
            out.append(['bool', 1 if v else 0])
        else:
            w = SORTS[ty]
            if ty.startswith('i') and v >= (1 << (w - 1)):
                v -= 1 << w
            out.append([ty, v])
    return out


def _dump_trace(self, m):
    out = []
    for e in self.events:
        if e[0] == 'obs':
            kind, val = e[2], e[3]
            if kind == 'str':
                bs = [self.eval_in_model(m, b) for b in val]
                out.append(['obs', e[1], 'str', bytes(bs).hex()])
                continue
            v = self.eval_in_model(m, val)
            if isinstance(v, dict):
                v = v['f64']
            elif kind == 'f64' and isinstance(v, float):
                v = ops.float_bits(v)
            elif kind == 'bool':
                v = 1 if v else 0
            elif kind in ('i64', 'i32'):
                w = 64 if kind == 'i64' else 32
                if v >= (1 << (w - 1)):
                    v -= 1 << w
            out.append(['obs', e[1], kind, v])
        elif e[0] == 'chk' and is_sym(e[2]):
            out.append(['chk', e[1], 1 if self.eval_in_model(m, e[2]) else 0])
        else:
            out.append(list(e))
    return out


Engine.dump_inputs = _dump_inputs
Engine.dump_trace = _dump_trace


def explore_task(eng, fn, name, prefix, donate=None):
    """depth-first exploration of the subtree of the harness' path tree below `prefix`.  Every path is
    executed from the start of the harness; the decisions of its prefix are replayed without solver queries."""
    eng.cur_harness = name
    eng.pending = [prefix]
    npaths = 0
    nunknown = 0
    try:
        while eng.pending:
            pre = eng.pending.pop()
            eng.reset_path(pre)
            stop = run_one_path(eng, fn, name)
            npaths += 1
            if donate is not None:
                donate(eng.pending)
            if stop:
                break
            nunknown += eng.stats.get('unknown', 0)
            if nunknown >= 2:
                eng.emit({'type': 'error', 'detail': 'stopped after %d solver timeouts (%d paths done, %d pending)' % (nunknown, npaths, len(eng.pending))})
                break
            if npaths > eng.max_paths:
                eng.emit({'type': 'error', 'detail': 'path budget exhausted (%d paths, %d pending)' % (npaths, len(eng.pending))})
                break
            if eng.deadline and time.time() > eng.deadline and eng.pending:
                eng.emit({'type': 'error', 'detail': 'wall-clock budget exhausted (%d paths done, %d pending)' % (npaths, len(eng.pending))})
                break
    finally:
        eng.pending = []
        eng.close_out()


def run_one_path(eng, fn, name):
    status, detail = 'ok', ''
    stop = False
    if True:
        try:
            eng.run_fn(fn, [])
        except PathEnd as e:
            status, detail = e.status, e.detail
        except RustPanic as p:
            status, detail = 'panic', '%s: %s @ %s' % (p.kind, p.msg, p.where)
            cid = name + ('.nooverflow' if p.kind == 'overflow' else '.nopanic')
            eng.events.append(('panic', p.kind))
            try:
                record_violation(eng, cid, True, kind='panic', extra={'panic': detail})
            except Exception as e2:
                detail += ' [model extraction failed: %s]' % e2
        except Unsupported as u:
            status, detail = 'unsupported', '%s  [stack: %s]' % (u, ' > '.join(s[-60:] for s in (getattr(u, 'stack', None) or [])[-6:]))
        except Inconclusive as u:
            status, detail = 'inconclusive', str(u)
            stop = 'budget' in str(u)
        except RecursionError:
            status, detail = 'inconclusive', 'python recursion limit'
        except Exception as e:
            status, detail = 'internal-error', traceback.format_exc()[-1500:]
        rec = {'type': 'path', 'harness': name, 'status': status, 'detail': detail, 'steps': eng.steps,
               'ndec': len(eng.taken), 'stats': eng.stats, 'checks': eng.check_sites,
               'fns': sorted(eng.fns_entered), 'models': sorted(eng.models_used),
               'assumptions': sorted(eng.assumptions)}
        if status in ('ok', 'check-failed') or status == 'panic':
            try:
                if eng.check_sat(None, 'q_assert'):
                    m = eng.model()
                    badc = [c for c in eng.pc if z3.is_false(m.eval(c, model_completion=True))]
                    if badc:
                        rec['status'] = 'internal-error'
                        rec['detail'] = 'solver model violates %d of %d path constraints, e.g. %s [model from %s solver; %d assertions in solver; model size %d; prefix %r; taken %r]' % (
                            len(badc), len(eng.pc), str(badc[0])[:300], 'fallback' if eng.model_solver is not eng.solver else 'incremental',
                            len(eng.solver.assertions()), len(m), eng.prefix, eng.taken)
                    rec['inputs'] = eng.dump_inputs(m)
                    rec['trace'] = eng.dump_trace(m)
            except Inconclusive as u:
                rec['status'] = 'inconclusive'
                rec['detail'] = 'final model: %s' % u
        rec['decisions'] = eng.decisions[-80:]
        eng.emit(rec)
    return stop


# ----------------------------------------------------------------------------- Model construction intercept

EN_BOOLEANS = {'true': 'TRUE', 'false': 'FALSE'}
EN_ERRORS = {'ref': '#REF!', 'name': '#NAME?', 'value': '#VALUE!', 'div': '#DIV/0!', 'na': '#N/A', 'num': '#NUM!', 'nimpl': '#N/IMPL!',
             'spill': '#SPILL!', 'calc': '#CALC!', 'circ': '#CIRC!', 'error': '#ERROR!', 'null': '#NULL!'}


_FN_TABLE = {}


def _language_tables(eng):
    """code -> {'meta': {name, code}, 'booleans': {...}, 'errors': {...}, 'functions': {field: name}} for every language the
    engine ships.  The strings come from the real tables (the native replay binary runs harness
    h_probe_function_names, which prints them); the field <-> variant pairing of the function table is read from the arms
    of Function::to_localized_name in the current source."""
    import os, re, json, subprocess, tempfile
    out = os.environ.get('MIRSYM_OUT')
    if not out:
        raise Unsupported('language tables: no build directory')
    if out in _FN_TABLE:
        return _FN_TABLE[out]
    cache = os.path.join(out, 'languages.json')
    if os.path.exists(cache):
        raw = json.load(open(cache))
    else:
        fd, path = tempfile.mkstemp(prefix='icverif-cases-', dir='/var/tmp')
        try:
            with os.fdopen(fd, 'w') as f:
                f.write('case h_probe_function_names\nend\n')
            p = subprocess.run([os.path.join(out, 'verif_replay_dev'), path], stdout=subprocess.PIPE, stderr=subprocess.DEVNULL, timeout=120)
        finally:
            os.unlink(path)
        raw = {}
        for line in p.stdout.decode('utf-8', 'replace').splitlines():
            m = re.match(r'obs fn str ([0-9a-f]+)\s*$', line)
            if m:
                code, section, kv = bytes.fromhex(m.group(1)).decode('utf-8').split('|', 2)
                k, _, v = kv.partition('=')
                raw.setdefault(code, {}).setdefault(section, {})[k] = v
        if 'en' not in raw or len(raw['en'].get('functions', {})) < 100:
            raise Unsupported('language tables: the native probe printed no English function table')
        tmp = cache + '.%d.tmp' % os.getpid()
        json.dump(raw, open(tmp, 'w'))
        os.replace(tmp, cache)
    src = open(os.path.join(out, 'src', 'src', 'functions', 'mod.rs')).read()
    i = src.index('fn to_localized_name')
    j = src.index('\n    }\n', i)
    pairs = re.findall(r'Function::(\w+)\s*=>\s*functions\.(?:r#)?(\w+)\.clone\(\)', src[i:j])
    tables = {}
    for code, t in raw.items():
        names = t.get('functions', {})
        fields = {}
        for variant, field in pairs:
            if variant not in names:
                raise Unsupported('language tables: no %s name for %s' % (code, variant))
            fields[field] = names[variant]
        tables[code] = {'meta': t['meta'], 'booleans': t['booleans'], 'errors': t['errors'], 'functions': fields}
    _FN_TABLE[out] = tables
    return tables


def _language(eng, code):
    """the Language value of `code`, every string taken from the real table (see _language_tables)"""
    from .mcore import mkstr
    tables = _language_tables(eng)
    if code not in tables:
        raise Unsupported('language %r is not in the engine\'s tables' % code)
    t = tables[code]
    ld = eng.td.lookup('language::Language')
    bd = eng.td.lookup('language::Booleans')
    ed = eng.td.lookup('language::Errors')
    fd = eng.td.lookup('language::Functions')
    if ld is None or bd is None or ed is None or fd is None:
        raise Unsupported('language::{Language,Booleans,Errors,Functions} not found')
    if sorted(bd.fields) != sorted(t['booleans']) or sorted(ed.fields) != sorted(t['errors']):
        raise Unsupported('language::{Booleans,Errors} have fields the probe does not print')
    missing = [f for f in fd.fields if f not in t['functions']]
    if missing:
        raise Unsupported('language::Functions has fields without a name: %s' % missing[:5])
    vals = {'name': mkstr(t['meta']['name']), 'code': mkstr(t['meta']['code']),
            'booleans': Agg([mkstr(t['booleans'][f]) for f in bd.fields], bd.path),
            'errors': Agg([mkstr(t['errors'][f]) for f in ed.fields], ed.path),
            'functions': Agg([mkstr(t['functions'][f]) for f in fd.fields], fd.path)}
    if sorted(ld.fields) != sorted(vals):
        raise Unsupported('language::Language has fields this intercept does not know')
    eng.assumptions.add('Language values: every string read from the engine\'s own tables through the native probe h_probe_function_names')
    return Agg([vals[f] for f in ld.fields], ld.path)


def _language_en(eng):
    return _language(eng, 'en')


@rt('language_en')
def _(eng, ci, a):
    return Ref([_language_en(eng)], 0)


def _real_parser(eng, g, locale_ref, language_ref):
    """the model's formula parser: `Parser::new(worksheet names, no defined names, no tables, locale, language)` run from
    its MIR (function-name lookups hit the opaque function table and are unsupported; references, operators,
    numbers, strings, booleans and errors parse)"""
    sdef = eng.td.lookup('types::Worksheet')
    names = VecV([copy_value(ws.f[sdef.index['name']]) for ws in g('worksheets').f])
    for mf in eng.mfs:
        for fn in mf.by_last.get('new', ()):
            if fn.kind == 'fn' and len(fn.params) == 5 and 'parser' in fn.name and 'Parser' in fn.ret:
                return eng.run_fn(fn, [names, VecV([]), MapV(), locale_ref, language_ref])
    return Opaque('parser')


def _shared_string_index(eng, strings):
    """Model::shared_strings: text -> index into workbook.shared_strings (as from_workbook builds it)"""
    from .mmap import map_insert
    m = MapV()
    for i, sv in enumerate(strings.f):
        map_insert(eng, m, copy_value(sv), i)
    return m


def _locale_for(eng, wb, wdef):
    """the model's locale, from workbook.settings.locale: `en` or `de` (hand-built by st::locale_with)"""
    from .mcore import mkstrslice, str_bytes, concrete_bytes
    settings = wb.f[wdef.index['settings']]
    sd = eng.td.lookup('types::WorkbookSettings')
    loc = concrete_bytes(str_bytes(settings.f[sd.index['locale']]))
    if loc not in (b'en', b'de'):
        raise Unsupported('model_from_workbook: locale %r' % (loc,))
    dec, grp = ('.', ',') if loc == b'en' else (',', '.')
    for mf in eng.mfs:
        for fn in mf.by_last.get('locale_with', ()):
            if fn.kind == 'fn' and len(fn.params) == 2:
                eng.assumptions.add('Model.locale = the hand-built Locale of st::locale_with (decimal %s group %s)' % (dec, grp))
                return eng.run_fn(fn, [mkstrslice(dec), mkstrslice(grp)])
    return Opaque('locale')


def _locale_en(eng):
    """the model's locale: the hand-built `en` Locale of the harness (st::locale_with(".", ",")) when the harness
    module is in the MIR, otherwise opaque"""
    from .mcore import mkstrslice
    for mf in eng.mfs:
        for fn in mf.by_last.get('locale_with', ()):
            if fn.kind == 'fn' and len(fn.params) == 2:
                eng.assumptions.add('Model.locale = the hand-built en Locale of st::locale_with (separators . and ,)')
                return eng.run_fn(fn, [mkstrslice('.'), mkstrslice(',')])
    return Opaque('locale')


@rt('model_from_workbook')
def _(eng, ci, a):
    """`Model::from_workbook(wb, "en")` for a workbook without formulas / defined names / tables (DESIGN 3.3):
    the given workbook, empty caches, one empty parsed-formula list per sheet, opaque parser / locale /
    language / timezone.  The preconditions are checked here on the (structurally concrete) workbook."""
    from .typedefs import StructDef
    wb = a[0]
    wdef = eng.td.lookup('types::Workbook')
    g = lambda name: wb.f[wdef.index[name]]
    if len(g('defined_names').f) or len(g('tables').f):
        raise Unsupported('model_from_workbook: workbook with defined names / tables')
    sdef = eng.td.lookup('types::Worksheet')
    for ws in g('worksheets').f:
        if len(ws.f[sdef.index['shared_formulas']].f):
            raise Unsupported('model_from_workbook: worksheet with formulas')
    md = eng.td.lookup('model::Model')
    if not isinstance(md, StructDef):
        raise Unsupported('model::Model definition not found')
    vals = {
        'workbook': wb,
        'parsed_formulas': VecV([VecV([]) for _ in g('worksheets').f]),
        'parsed_defined_names': MapV(),
        'shared_strings': _shared_string_index(eng, g('shared_strings')),
        'parser': None,
        'cells': MapV(),
        'locale': Ref([_locale_for(eng, wb, wdef)], 0),
        'language': Ref([_language_en(eng)], 0),
        'tz': Opaque('tz'),
        'view_id': 0,
        'variable_stack': MapV(),
        'last_variable_id': 0,
        'lambdas': MapV(),
        'last_lambda_id': 0,
        'spill_cells': VecV([]),
        'support': MapV(),
        'cf_cache': MapV(),
        'links': MapV(),
    }
    vals['parser'] = _real_parser(eng, g, vals['locale'], vals['language'])
    missing = [f for f in md.fields if f not in vals]
    if missing or len(md.fields) != len(vals):
        raise Unsupported('model::Model has fields this intercept does not know: %s' % (missing or sorted(set(vals) - set(md.fields))))
    eng.assumptions.add('intercept Model::from_workbook: formula-free workbook; parser/locale/language/tz opaque')
    return Agg([vals[f] for f in md.fields], md.path)
