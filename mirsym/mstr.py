"""std models, part 3: String / str / char / fmt / parse."""
import re, math
import z3
from .mirparse import Unsupported, INT_TYPES, split_top
from .values import *
from . import ops
from .ops import is_sym, bool_and, bool_or, bool_not
from .mcore import (model, MODELS, deref, deref1, none, some, ok, err, seq_items, value_eq, call_closure,
                    str_bytes, bytes_eq, concrete_bytes, mkstr, mkstrslice)
from .miter import CharsIter, BytesIter, ListIter, SliceIter, END, panic, iter_next, range_bounds_checked, \
    push_char_or_str, index_value


def sview(v):
    """(lst, lo, hi) of any string-ish value without copying"""
    n = 0
    while True:
        t = type(v)
        if t is Slice:
            return v.lst, v.lo, v.hi
        if t is StrV:
            f = v.f
            return f, 0, len(f)
        if t is Ref:
            v = v.get()
        elif t is BoxV:
            v = v.ptr().get()
        elif t is Enum and v.ty == 'Cow':
            v = v.f[0]
        elif isinstance(v, CharsIter):
            return v.lst, v.lo, v.hi
        else:
            raise Unsupported('sview of %r' % (v,))
        n += 1
        if n > 16:
            raise Unsupported('ref chain')


def char_class(eng, c, pred_ascii, pred_py=None):
    """apply an ASCII predicate to a char (int or 32-bit term); symbolic chars are ASCII by assumption"""
    if is_sym(c):
        if c.size() == 32:
            eng.require_ascii_char(c)
        return pred_ascii(c)
    if pred_py is not None:
        return pred_py(chr(c))
    return pred_ascii(c)


def in_range(c, lo, hi):
    if is_sym(c):
        w = c.size()
        return z3.And(z3.UGE(c, z3.BitVecVal(lo, w)), z3.ULE(c, z3.BitVecVal(hi, w)))
    return lo <= c <= hi


def eqc(c, k):
    if is_sym(c):
        return c == z3.BitVecVal(k, c.size())
    return c == k


def is_ascii_digit(c):
    return in_range(c, 48, 57)


def is_ascii_upper(c):
    return in_range(c, 65, 90)


def is_ascii_lower(c):
    return in_range(c, 97, 122)


def is_ascii_alpha(c):
    return bool_or(is_ascii_upper(c), is_ascii_lower(c))


def is_ascii_ws(c):
    # char::is_ascii_whitespace: space, \t, \n, \x0c, \r
    return bool_or(bool_or(eqc(c, 32), eqc(c, 9)), bool_or(eqc(c, 10), bool_or(eqc(c, 12), eqc(c, 13))))


def is_ws(c):
    # char::is_whitespace on ASCII: \t \n \x0b \x0c \r space
    return bool_or(eqc(c, 32), in_range(c, 9, 13))


def to_upper(c):
    if is_sym(c):
        return z3.If(is_ascii_lower(c), c - 32, c)
    return c - 32 if 97 <= c <= 122 else c


def to_lower(c):
    if is_sym(c):
        return z3.If(is_ascii_upper(c), c + 32, c)
    return c + 32 if 65 <= c <= 90 else c


CHAR_PREDS = {
    'is_ascii_digit': (is_ascii_digit, None),
    'is_ascii_alphabetic': (is_ascii_alpha, None),
    'is_ascii_alphanumeric': (lambda c: bool_or(is_ascii_alpha(c), is_ascii_digit(c)), None),
    'is_ascii_uppercase': (is_ascii_upper, None),
    'is_ascii_lowercase': (is_ascii_lower, None),
    'is_ascii_whitespace': (is_ascii_ws, None),
    'is_ascii_punctuation': (lambda c: bool_or(bool_or(in_range(c, 33, 47), in_range(c, 58, 64)),
                                               bool_or(in_range(c, 91, 96), in_range(c, 123, 126))), None),
    'is_ascii_hexdigit': (lambda c: bool_or(is_ascii_digit(c), bool_or(in_range(c, 65, 70), in_range(c, 97, 102))), None),
    'is_ascii_control': (lambda c: bool_or(in_range(c, 0, 31), eqc(c, 127)), None),
    'is_ascii_graphic': (lambda c: in_range(c, 33, 126), None),
    'is_ascii': (lambda c: in_range(c, 0, 127), None),
    'is_alphabetic': (is_ascii_alpha, lambda ch: ch.isalpha()),
    'is_numeric': (is_ascii_digit, lambda ch: ch.isnumeric()),
    'is_alphanumeric': (lambda c: bool_or(is_ascii_alpha(c), is_ascii_digit(c)), lambda ch: ch.isalnum()),
    'is_whitespace': (is_ws, lambda ch: ch.isspace() and ch not in '\x1c\x1d\x1e\x1f'),
    'is_uppercase': (is_ascii_upper, lambda ch: ch.isupper()),
    'is_lowercase': (is_ascii_lower, lambda ch: ch.islower()),
    'is_control': (lambda c: bool_or(in_range(c, 0, 31), in_range(c, 127, 159)), None),
}


def _mk_char_pred(name):
    pa, pp = CHAR_PREDS[name]

    def m(eng, ci, a, dt):
        c = deref1(a[0])
        return char_class(eng, c, pa, pp)
    return m


for _n in CHAR_PREDS:
    MODELS['char::' + _n] = _mk_char_pred(_n)
    MODELS['u8::' + _n] = _mk_char_pred(_n)


@model('char::is_digit')
def _(eng, ci, a, dt):
    c = a[0]
    radix = a[1]
    if radix != 10:
        if is_sym(c):
            raise Unsupported('is_digit radix')
        try:
            int(chr(c), radix)
            return True
        except ValueError:
            return False
    return char_class(eng, c, is_ascii_digit)


@model('char::to_digit')
def _(eng, ci, a, dt):
    c = a[0]
    if a[1] != 10:
        if is_sym(c):
            raise Unsupported('to_digit radix')
        try:
            return some(int(chr(c), a[1]))
        except ValueError:
            return none()
    if eng.truth(char_class(eng, c, is_ascii_digit)):
        return some(ops.int_binop('Sub', c, 48, 32, False))
    return none()


@model('char::to_ascii_uppercase', 'u8::to_ascii_uppercase')
def _(eng, ci, a, dt):
    return to_upper(deref1(a[0]))


@model('char::to_ascii_lowercase', 'u8::to_ascii_lowercase')
def _(eng, ci, a, dt):
    return to_lower(deref1(a[0]))


@model('char::eq_ignore_ascii_case', 'u8::eq_ignore_ascii_case')
def _(eng, ci, a, dt):
    x, y = to_lower(deref1(a[0])), to_lower(deref1(a[1]))
    from .mcore import scalar_eq
    return scalar_eq(x, y)


@model('char::to_uppercase', 'char::to_lowercase')
def _(eng, ci, a, dt):
    c = a[0]
    if is_sym(c):
        eng.require_ascii_char(c)
        return ListIter([to_upper(c) if ci.method == 'to_uppercase' else to_lower(c)])
    s = chr(c).upper() if ci.method == 'to_uppercase' else chr(c).lower()
    return ListIter([ord(x) for x in s])


@model('char::len_utf8')
def _(eng, ci, a, dt):
    c = a[0]
    if is_sym(c):
        eng.require_ascii_char(c)
        return 1
    return len(chr(c).encode('utf-8'))


@model('char::from_u32')
def _(eng, ci, a, dt):
    c = a[0]
    if is_sym(c):
        valid = bool_or(ops.int_binop('Lt', c, 0xD800, 32, False),
                        bool_and(ops.int_binop('Gt', c, 0xDFFF, 32, False), ops.int_binop('Le', c, 0x10FFFF, 32, False)))
        return some(c) if eng.truth(valid) else none()
    return some(c) if (c < 0xD800 or 0xDFFF < c <= 0x10FFFF) else none()


@model('char::from_digit')
def _(eng, ci, a, dt):
    d, radix = a
    if radix != 10:
        raise Unsupported('from_digit radix')
    if eng.truth(ops.int_binop('Lt', d, 10, 32, False)):
        return some(ops.int_binop('Add', d, 48, 32, False))
    return none()


@model('char::from_u32_unchecked', 'char::from')
def _(eng, ci, a, dt):
    c = a[0]
    if is_sym(c) and c.size() == 8:
        return z3.ZeroExt(24, c)
    return c


# ----------------------------------------------------------------------------- String / str basics

@model('String::new')
def _(eng, ci, a, dt):
    return StrV([])


@model('String::with_capacity')
def _(eng, ci, a, dt):
    return StrV([])


@model('String::len', 'str::len')
def _(eng, ci, a, dt):
    lst, lo, hi = sview(a[0])
    return hi - lo


@model('String::is_empty', 'str::is_empty')
def _(eng, ci, a, dt):
    lst, lo, hi = sview(a[0])
    return hi == lo


@model('String::as_str', 'String::as_mut_str', 'Deref::deref@String', 'AsRef::as_ref@String', 'Borrow::borrow@String',
       'str::as_str', 'String::borrow', 'AsRef::as_ref@str', 'Chars::as_str', 'DerefMut::deref_mut@String',
       'String::deref')
def _(eng, ci, a, dt):
    lst, lo, hi = sview(a[0])
    if dt and '[u8]' in dt:
        return Slice(lst, lo, hi, False)
    return Slice(lst, lo, hi, True)


@model('String::as_bytes', 'str::as_bytes', 'String::as_mut_vec')
def _(eng, ci, a, dt):
    lst, lo, hi = sview(a[0])
    return Slice(lst, lo, hi, False)


@model('String::into_bytes')
def _(eng, ci, a, dt):
    return VecV(a[0].f)


@model('String::into_boxed_str')
def _(eng, ci, a, dt):
    return a[0]


@model('String::push')
def _(eng, ci, a, dt):
    s = deref(a[0])
    f = s.f
    push_char_or_str(eng, f, a[1])
    s.origin = None
    return UNIT


@model('String::push_str')
def _(eng, ci, a, dt):
    s = deref(a[0])
    s.f.extend(str_bytes(a[1]))
    s.origin = None
    return UNIT


@model('String::pop')
def _(eng, ci, a, dt):
    s = deref(a[0])
    f = s.f
    if not f:
        return none()
    it = CharsIter(f, 0, len(f))
    c = it.next_back(eng)
    del f[it.hi:]
    return some(c)


@model('String::clear')
def _(eng, ci, a, dt):
    deref(a[0]).f = []
    return UNIT


@model('String::truncate')
def _(eng, ci, a, dt):
    f = deref(a[0]).f
    n = eng.concretize(a[1], range(len(f) + 1), 'truncate')
    del f[n:]
    return UNIT


@model('String::insert')
def _(eng, ci, a, dt):
    f = deref(a[0]).f
    i = eng.concretize(a[1], range(len(f) + 1), 'String::insert')
    tmp = []
    push_char_or_str(eng, tmp, a[2])
    f[i:i] = tmp
    return UNIT


@model('String::insert_str')
def _(eng, ci, a, dt):
    f = deref(a[0]).f
    i = eng.concretize(a[1], range(len(f) + 1), 'String::insert_str')
    f[i:i] = str_bytes(a[2])
    return UNIT


@model('String::remove')
def _(eng, ci, a, dt):
    f = deref(a[0]).f
    i = eng.concretize(a[1], range(len(f)), 'String::remove')
    it = CharsIter(f, i, len(f))
    c = it.next(eng)
    del f[i:it.lo]
    return c


@model('String::from_utf8', 'str::from_utf8')
def _(eng, ci, a, dt):
    lst, lo, hi = seq_items(a[0])
    bs = lst[lo:hi]
    for b in bs:
        if is_sym(b):
            eng.require_ascii(b)
    cb = concrete_bytes(bs)
    if cb is not None:
        try:
            cb.decode('utf-8')
        except UnicodeDecodeError:
            return err(Opaque('Utf8Error'))
    if ci.key.startswith('String'):
        return ok(StrV(list(bs)))
    return ok(Slice(lst, lo, hi, True))


@model('String::from_utf8_lossy')
def _(eng, ci, a, dt):
    lst, lo, hi = seq_items(a[0])
    return Enum(0, [Slice(lst, lo, hi, True)], 'Cow')


@model('String::from_utf8_unchecked', 'str::from_utf8_unchecked')
def _(eng, ci, a, dt):
    lst, lo, hi = seq_items(a[0])
    if ci.key.startswith('String'):
        return StrV(lst[lo:hi])
    return Slice(lst, lo, hi, True)


@model('ToString::to_string', 'str::to_string', 'str::to_owned', 'String::from', 'str::into_string',
       'String::to_string', 'str::into_boxed_str', 'Cow::into_owned', 'Cow::to_string')
def _(eng, ci, a, dt):
    v = deref(a[0])
    t = type(v)
    if t is Slice and v.is_str:
        return StrV(v.items())
    if t is StrV:
        return copy_value(v)
    if t is Enum and v.ty == 'Cow':
        return StrV(str_bytes(v.f[0]))
    sty = ci.self_ty or (ci.generics[0] if ci.generics else '')
    return StrV(render_display(eng, v, sty.strip().lstrip('&')))


@model('str::chars', 'String::chars')
def _(eng, ci, a, dt):
    lst, lo, hi = sview(a[0])
    return CharsIter(lst, lo, hi)


@model('str::char_indices')
def _(eng, ci, a, dt):
    lst, lo, hi = sview(a[0])
    return CharsIter(lst, lo, hi, True)


@model('str::bytes')
def _(eng, ci, a, dt):
    lst, lo, hi = sview(a[0])
    return BytesIter(lst, lo, hi)


@model('Iterator::rev@Chars')
def _(eng, ci, a, dt):
    from .miter import Adapter
    return Adapter('rev', a[0])


@model('str::is_char_boundary')
def _(eng, ci, a, dt):
    lst, lo, hi = sview(a[0])
    i = a[1]
    n = hi - lo
    if is_sym(i):
        if eng.truth(ops.int_binop('Gt', i, n, 64, False)):
            return False
        i = eng.concretize(i, range(n + 1), 'is_char_boundary')
    if i == 0 or i == n:
        return True
    if i > n:
        return False
    b = lst[lo + i]
    if is_sym(b):
        eng.require_ascii(b)
        return True
    return (b & 0xc0) != 0x80


@model('str::eq_ignore_ascii_case')
def _(eng, ci, a, dt):
    x, y = str_bytes(a[0]), str_bytes(a[1])
    return bytes_eq([to_lower(b) for b in x], [to_lower(b) for b in y])


def map_bytes_ascii(eng, bs, f, py):
    cb = concrete_bytes(bs)
    if cb is not None:
        return list(py(cb.decode('utf-8')).encode('utf-8'))
    out = []
    for b in bs:
        if is_sym(b):
            eng.require_ascii(b)
            out.append(f(b))
        elif b < 0x80:
            out.append(f(b))
        else:
            raise Unsupported('case mapping of mixed symbolic / non-ASCII text')
    return out


@model('str::to_uppercase', 'str::to_ascii_uppercase')
def _(eng, ci, a, dt):
    py = (lambda s: s.upper()) if ci.method == 'to_uppercase' else \
        (lambda s: ''.join(chr(ord(c) - 32) if 'a' <= c <= 'z' else c for c in s))
    return StrV(map_bytes_ascii(eng, str_bytes(a[0]), to_upper, py))


@model('str::to_lowercase', 'str::to_ascii_lowercase')
def _(eng, ci, a, dt):
    py = (lambda s: s.lower()) if ci.method == 'to_lowercase' else \
        (lambda s: ''.join(chr(ord(c) + 32) if 'A' <= c <= 'Z' else c for c in s))
    return StrV(map_bytes_ascii(eng, str_bytes(a[0]), to_lower, py))


@model('str::make_ascii_uppercase', 'str::make_ascii_lowercase')
def _(eng, ci, a, dt):
    lst, lo, hi = sview(a[0])
    f = to_upper if 'upper' in ci.method else to_lower
    for i in range(lo, hi):
        lst[i] = f(lst[i])
    return UNIT


@model('str::is_ascii')
def _(eng, ci, a, dt):
    acc = True
    for b in str_bytes(a[0]):
        acc = bool_and(acc, in_range(b, 0, 127))
    return acc


@model('str::repeat')
def _(eng, ci, a, dt):
    n = eng.concretize(a[1], range(0, 65), 'repeat')
    return StrV(str_bytes(a[0]) * n)


# ----------------------------------------------------------------------------- patterns

class Pat:
    """string pattern: matcher over a byte window"""
    def __init__(self, eng, p):
        self.eng = eng
        p = deref1(p) if type(p) is Ref and type(p.get()) in (StrV, Slice, Ref) else p
        self.kind = None
        t = type(p)
        if t is int or (is_sym(p) and z3.is_bv(p)):
            self.kind = 'char'
            self.c = p
            if t is int:
                self.bytes = list(chr(p).encode('utf-8'))
            else:
                eng.require_ascii_char(p)
                self.bytes = [z3.Extract(7, 0, p)]
        elif t in (Slice, StrV) and (t is StrV or p.is_str):
            self.kind = 'str'
            self.bytes = str_bytes(p)
        elif t is Ref:
            self.__init__(eng, p.get())
        elif isinstance(p, (Closure, FnItem)):
            self.kind = 'pred'
            self.f = p
        elif t is Agg and p.ty == 'array' or t is Slice:
            self.kind = 'set'
            self.set = list(p.f) if t is Agg else p.items()
        else:
            raise Unsupported('pattern %r' % (p,))

    def match_at(self, lst, i, hi):
        """-> (cond, nbytes): cond bool/z3 that the pattern matches at byte offset i"""
        eng = self.eng
        if self.kind in ('char', 'str'):
            n = len(self.bytes)
            if i + n > hi:
                return False, 0
            return bytes_eq(lst[i:i + n], self.bytes), n
        from .miter import decode_char
        c, n = decode_char(eng, lst, i, hi)
        if self.kind == 'pred':
            return eng.call_callable(self.f, [c]), n
        acc = False
        for k in self.set:
            from .mcore import scalar_eq
            acc = bool_or(acc, scalar_eq(c, k))
        return acc, n

    def empty(self):
        return self.kind in ('char', 'str') and len(self.bytes) == 0


def char_step(eng, lst, i, hi):
    from .miter import decode_char
    return decode_char(eng, lst, i, hi)[1]


def find_first(eng, pat, lst, lo, hi, start=None):
    """first match position >= start (absolute) -> (pos, n) or None; forks"""
    i = lo if start is None else start
    if pat.empty():
        return (i, 0)
    while i < hi:
        c, n = pat.match_at(lst, i, hi)
        if c is not False and eng.truth(c):
            return (i, n)
        i += char_step(eng, lst, i, hi) if pat.kind in ('pred', 'set', 'char') else 1
    return None


def find_last(eng, pat, lst, lo, hi):
    if pat.empty():
        return (hi, 0)
    i = hi - 1
    while i >= lo:
        b = lst[i]
        if not is_sym(b) and (b & 0xc0) == 0x80:
            i -= 1
            continue
        c, n = pat.match_at(lst, i, hi)
        if c is not False and eng.truth(c):
            return (i, n)
        i -= 1
    return None


@model('str::contains')
def _(eng, ci, a, dt):
    lst, lo, hi = sview(a[0])
    return find_first(eng, Pat(eng, a[1]), lst, lo, hi) is not None


@model('str::starts_with')
def _(eng, ci, a, dt):
    lst, lo, hi = sview(a[0])
    if hi == lo:
        p = Pat(eng, a[1])
        return p.empty()
    c, n = Pat(eng, a[1]).match_at(lst, lo, hi)
    return c


@model('str::ends_with')
def _(eng, ci, a, dt):
    lst, lo, hi = sview(a[0])
    p = Pat(eng, a[1])
    if p.kind in ('char', 'str'):
        n = len(p.bytes)
        if n > hi - lo:
            return False
        return bytes_eq(lst[hi - n:hi], p.bytes)
    if hi == lo:
        return False
    from .miter import decode_char_back
    c, n = decode_char_back(eng, lst, lo, hi)
    return p.match_at(lst, hi - n, hi)[0]


@model('str::find')
def _(eng, ci, a, dt):
    lst, lo, hi = sview(a[0])
    r = find_first(eng, Pat(eng, a[1]), lst, lo, hi)
    return none() if r is None else some(r[0] - lo)


@model('str::rfind')
def _(eng, ci, a, dt):
    lst, lo, hi = sview(a[0])
    r = find_last(eng, Pat(eng, a[1]), lst, lo, hi)
    return none() if r is None else some(r[0] - lo)


@model('str::strip_prefix')
def _(eng, ci, a, dt):
    lst, lo, hi = sview(a[0])
    p = Pat(eng, a[1])
    if hi == lo and not p.empty():
        return none()
    c, n = p.match_at(lst, lo, hi)
    if c is not False and eng.truth(c):
        return some(Slice(lst, lo + n, hi, True))
    return none()


@model('str::strip_suffix')
def _(eng, ci, a, dt):
    lst, lo, hi = sview(a[0])
    p = Pat(eng, a[1])
    if p.kind not in ('char', 'str'):
        raise Unsupported('strip_suffix pattern')
    n = len(p.bytes)
    if n > hi - lo:
        return none()
    if eng.truth(bytes_eq(lst[hi - n:hi], p.bytes)):
        return some(Slice(lst, lo, hi - n, True))
    return none()


def trim_start_pos(eng, lst, lo, hi, pred):
    i = lo
    while i < hi:
        from .miter import decode_char
        c, n = decode_char(eng, lst, i, hi)
        if not eng.truth(pred(c)):
            break
        i += n
    return i


def trim_end_pos(eng, lst, lo, hi, pred):
    j = hi
    while j > lo:
        from .miter import decode_char_back
        c, n = decode_char_back(eng, lst, lo, j)
        if not eng.truth(pred(c)):
            break
        j -= n
    return j


def ws_pred(eng):
    return lambda c: char_class(eng, c, is_ws, lambda ch: ch.isspace() and ch not in '\x1c\x1d\x1e\x1f')


@model('str::trim')
def _(eng, ci, a, dt):
    lst, lo, hi = sview(a[0])
    i = trim_start_pos(eng, lst, lo, hi, ws_pred(eng))
    j = trim_end_pos(eng, lst, i, hi, ws_pred(eng))
    return Slice(lst, i, j, True)


@model('str::trim_start', 'str::trim_left')
def _(eng, ci, a, dt):
    lst, lo, hi = sview(a[0])
    return Slice(lst, trim_start_pos(eng, lst, lo, hi, ws_pred(eng)), hi, True)


@model('str::trim_end', 'str::trim_right')
def _(eng, ci, a, dt):
    lst, lo, hi = sview(a[0])
    return Slice(lst, lo, trim_end_pos(eng, lst, lo, hi, ws_pred(eng)), True)


def pat_pred(eng, p):
    pt = Pat(eng, p)
    if pt.kind == 'char':
        from .mcore import scalar_eq
        return lambda c: scalar_eq(c, pt.c)
    if pt.kind == 'pred':
        return lambda c: eng.call_callable(pt.f, [c])
    if pt.kind == 'set':
        from .mcore import scalar_eq

        def f(c):
            acc = False
            for k in pt.set:
                acc = bool_or(acc, scalar_eq(c, k))
            return acc
        return f
    raise Unsupported('trim_matches with str pattern')


@model('str::trim_matches')
def _(eng, ci, a, dt):
    lst, lo, hi = sview(a[0])
    pr = pat_pred(eng, a[1])
    i = trim_start_pos(eng, lst, lo, hi, pr)
    return Slice(lst, i, trim_end_pos(eng, lst, i, hi, pr), True)


@model('str::trim_start_matches', 'str::trim_left_matches')
def _(eng, ci, a, dt):
    lst, lo, hi = sview(a[0])
    p = Pat(eng, a[1])
    if p.kind == 'str':
        i = lo
        while not p.empty() and i + len(p.bytes) <= hi and eng.truth(bytes_eq(lst[i:i + len(p.bytes)], p.bytes)):
            i += len(p.bytes)
        return Slice(lst, i, hi, True)
    return Slice(lst, trim_start_pos(eng, lst, lo, hi, pat_pred(eng, a[1])), hi, True)


@model('str::trim_end_matches', 'str::trim_right_matches')
def _(eng, ci, a, dt):
    lst, lo, hi = sview(a[0])
    p = Pat(eng, a[1])
    if p.kind == 'str':
        j = hi
        n = len(p.bytes)
        while n and j - n >= lo and eng.truth(bytes_eq(lst[j - n:j], p.bytes)):
            j -= n
        return Slice(lst, lo, j, True)
    return Slice(lst, lo, trim_end_pos(eng, lst, lo, hi, pat_pred(eng, a[1])), True)


def split_all(eng, lst, lo, hi, pat, limit=None, inclusive=False, terminator=False):
    out = []
    start = lo
    i = lo
    if pat.empty():
        raise Unsupported('split on empty pattern')
    while i < hi and (limit is None or len(out) < limit - 1):
        r = find_first(eng, pat, lst, lo, hi, start=i)
        if r is None:
            break
        pos, n = r
        out.append(Slice(lst, start, pos + (n if inclusive else 0), True))
        start = pos + n
        i = start
    if not ((terminator or inclusive) and start == hi):
        out.append(Slice(lst, start, hi, True))
    return out


@model('str::split')
def _(eng, ci, a, dt):
    lst, lo, hi = sview(a[0])
    return ListIter(split_all(eng, lst, lo, hi, Pat(eng, a[1])))


@model('str::split_inclusive')
def _(eng, ci, a, dt):
    lst, lo, hi = sview(a[0])
    return ListIter(split_all(eng, lst, lo, hi, Pat(eng, a[1]), inclusive=True))


@model('str::split_terminator')
def _(eng, ci, a, dt):
    lst, lo, hi = sview(a[0])
    return ListIter(split_all(eng, lst, lo, hi, Pat(eng, a[1]), terminator=True))


@model('str::splitn')
def _(eng, ci, a, dt):
    lst, lo, hi = sview(a[0])
    n = eng.concretize(a[1], range(0, 33), 'splitn')
    if n == 0:
        return ListIter([])
    return ListIter(split_all(eng, lst, lo, hi, Pat(eng, a[2]), limit=n))


@model('str::rsplit')
def _(eng, ci, a, dt):
    lst, lo, hi = sview(a[0])
    return ListIter(split_all(eng, lst, lo, hi, Pat(eng, a[1]))[::-1])


@model('str::rsplitn')
def _(eng, ci, a, dt):
    lst, lo, hi = sview(a[0])
    n = eng.concretize(a[1], range(0, 33), 'rsplitn')
    pat = Pat(eng, a[2])
    out = []
    end = hi
    while len(out) < n - 1:
        r = find_last(eng, pat, lst, lo, end)
        if r is None:
            break
        pos, m = r
        out.append(Slice(lst, pos + m, end, True))
        end = pos
    if n > 0:
        out.append(Slice(lst, lo, end, True))
    return ListIter(out)


@model('str::split_once')
def _(eng, ci, a, dt):
    lst, lo, hi = sview(a[0])
    r = find_first(eng, Pat(eng, a[1]), lst, lo, hi)
    if r is None:
        return none()
    pos, n = r
    return some(Agg([Slice(lst, lo, pos, True), Slice(lst, pos + n, hi, True)], 'tuple'))


@model('str::rsplit_once')
def _(eng, ci, a, dt):
    lst, lo, hi = sview(a[0])
    r = find_last(eng, Pat(eng, a[1]), lst, lo, hi)
    if r is None:
        return none()
    pos, n = r
    return some(Agg([Slice(lst, lo, pos, True), Slice(lst, pos + n, hi, True)], 'tuple'))


@model('str::split_whitespace', 'str::split_ascii_whitespace')
def _(eng, ci, a, dt):
    lst, lo, hi = sview(a[0])
    out = []
    i = lo
    pr = ws_pred(eng)
    while i < hi:
        i = trim_start_pos(eng, lst, i, hi, pr)
        if i >= hi:
            break
        j = i
        while j < hi:
            from .miter import decode_char
            c, n = decode_char(eng, lst, j, hi)
            if eng.truth(pr(c)):
                break
            j += n
        out.append(Slice(lst, i, j, True))
        i = j
    return ListIter(out)


@model('str::lines')
def _(eng, ci, a, dt):
    lst, lo, hi = sview(a[0])
    parts = split_all(eng, lst, lo, hi, Pat(eng, 10), terminator=True)
    out = []
    for p in parts:
        if len(p) and eng.truth(eqc(p.lst[p.hi - 1], 13)):
            p = Slice(p.lst, p.lo, p.hi - 1, True)
        out.append(p)
    return ListIter(out)


@model('str::matches')
def _(eng, ci, a, dt):
    lst, lo, hi = sview(a[0])
    pat = Pat(eng, a[1])
    out = []
    i = lo
    while i <= hi:
        r = find_first(eng, pat, lst, lo, hi, start=i)
        if r is None:
            break
        out.append(Slice(lst, r[0], r[0] + r[1], True))
        i = r[0] + max(r[1], 1)
    return ListIter(out)


@model('str::replace', 'str::replacen')
def _(eng, ci, a, dt):
    lst, lo, hi = sview(a[0])
    pat = Pat(eng, a[1])
    to = str_bytes(a[2])
    limit = None
    if ci.method == 'replacen':
        limit = eng.concretize(a[3], range(0, 65), 'replacen') + 1
    parts = split_all(eng, lst, lo, hi, pat, limit=limit)
    out = []
    for i, p in enumerate(parts):
        if i:
            out.extend(to)
        out.extend(p.items())
    return StrV(out)


@model('str::split_at')
def _(eng, ci, a, dt):
    lst, lo, hi = sview(a[0])
    m = a[1]
    if is_sym(m):
        if eng.truth(ops.int_binop('Gt', m, hi - lo, 64, False)):
            panic(eng, 'split_at out of bounds', 'bounds')
        m = eng.concretize(m, range(hi - lo + 1), 'split_at')
    elif m > hi - lo:
        panic(eng, 'split_at out of bounds', 'bounds')
    return Agg([Slice(lst, lo, lo + m, True), Slice(lst, lo + m, hi, True)], 'tuple')


@model('Add::add@String')
def _(eng, ci, a, dt):
    s = a[0]
    s.f.extend(str_bytes(a[1]))
    return s


@model('AddAssign::add_assign@String')
def _(eng, ci, a, dt):
    deref(a[0]).f.extend(str_bytes(a[1]))
    return UNIT


@model('PartialEq::eq@String', 'PartialEq::eq@str', 'PartialEq::ne@String', 'PartialEq::ne@str')
def _(eng, ci, a, dt):
    r = bytes_eq(str_bytes(a[0]), str_bytes(a[1]))
    return bool_not(r) if ci.method == 'ne' else r


# ----------------------------------------------------------------------------- Display / fmt

def f64_display(x):
    """Rust `{}` for f64: shortest round-trip digits, never exponent form"""
    if x != x:
        return 'NaN'
    if x == math.inf:
        return 'inf'
    if x == -math.inf:
        return '-inf'
    r = repr(x)
    sign = ''
    if r.startswith('-'):
        sign = '-'
        r = r[1:]
    if 'e' in r:
        mant, e = r.split('e')
        e = int(e)
        if '.' in mant:
            ip, fp = mant.split('.')
        else:
            ip, fp = mant, ''
        digits = ip + fp
        point = len(ip) + e
        if point <= 0:
            r = '0.' + '0' * (-point) + digits
        elif point >= len(digits):
            r = digits + '0' * (point - len(digits))
        else:
            r = digits[:point] + '.' + digits[point:]
        r = r.rstrip('0').rstrip('.') if '.' in r else r
    if r.endswith('.0'):
        r = r[:-2]
    return sign + r


def int_dec_bytes(eng, v, w, signed):
    """decimal digits of an integer as bytes; symbolic: forks on sign and digit count"""
    if not is_sym(v):
        return list(str(v).encode())
    out = []
    mag = v
    if signed:
        if eng.truth(v < 0):
            out.append(45)
            mag = -v
    maxd = len(str((1 << w) - 1)) if not signed else len(str(1 << (w - 1)))
    conds = []
    for d in range(1, maxd + 1):
        lo = 10 ** (d - 1) if d > 1 else 0
        hi = 10 ** d
        c = z3.UGE(mag, z3.BitVecVal(lo, w)) if lo else True
        if hi < (1 << w):
            c = bool_and(c, z3.ULT(mag, z3.BitVecVal(hi, w)))
        conds.append(c)
    nd = eng.choose(conds) + 1
    digs = []
    for k in range(nd - 1, -1, -1):
        q = z3.UDiv(mag, z3.BitVecVal(10 ** k, w)) if k else mag
        digs.append(z3.Extract(7, 0, z3.URem(q, z3.BitVecVal(10, w))) + 48)
    digs = [z3.simplify(d) for d in digs]
    out.extend(digs)
    key = tuple(d.get_id() if is_sym(d) else d for d in out)
    eng.int_str_origin[key] = (v, w, signed)
    return out


def render_display(eng, v, ty, spec=None):
    """bytes of `{}`-formatting v of static type ty"""
    v = deref(v)
    t = type(v)
    if t is StrV or (t is Slice and v.is_str):
        return str_bytes(v)
    if t is bool:
        return list(b'true' if v else b'false')
    if ty == 'char':
        tmp = []
        push_char_or_str(eng, tmp, v)
        return tmp
    if t is int or (is_sym(v) and z3.is_bv(v)):
        if ty in INT_TYPES:
            w, s = INT_TYPES[ty]
        elif is_sym(v):
            raise Unsupported('Display of integer of unknown type %r' % ty)
        else:
            return list(str(v).encode())
        return int_dec_bytes(eng, v, w, s)
    if t is float:
        return list(f64_display(v).encode())
    if is_sym(v) and z3.is_bool(v):
        return list(b'true' if eng.truth(v) else b'false')
    if is_sym(v) and z3.is_fp(v):
        raise Unsupported('Display of a symbolic f64 (float->decimal is not encoded)')
    if t is Enum and v.ty == 'Cow':
        return str_bytes(v.f[0])
    if isinstance(v, (Agg, Enum)) and v.ty:
        fn = eng.resolve_trait_impl(v.ty, 'Display', 'fmt')
        if fn is not None:
            buf = StrV([])
            fm = Opaque('Formatter', buf)
            r = eng.run_fn(fn, [Ref([v], 0), Ref([fm], 0)])
            return buf.f
    if t is Opaque:
        raise Unsupported('Display of opaque %s' % v.what)
    raise Unsupported('Display of %r : %s' % (v, ty))


def render_debug(eng, v, ty):
    v = deref(v)
    t = type(v)
    if t is StrV or (t is Slice and v.is_str):
        cb = concrete_bytes(str_bytes(v))
        if cb is None:
            raise Unsupported('Debug of symbolic string')
        s = cb.decode('utf-8')
        out = '"'
        for ch in s:
            if ch == '"':
                out += '\\"'
            elif ch == '\\':
                out += '\\\\'
            elif ch == '\n':
                out += '\\n'
            elif ch == '\t':
                out += '\\t'
            elif ch == '\r':
                out += '\\r'
            elif ch == "'":
                out += "'"
            else:
                out += ch
        return list((out + '"').encode('utf-8'))
    if t in (int, bool) or (is_sym(v) and not z3.is_fp(v)):
        return render_display(eng, v, ty)
    if t is Enum and not v.f and v.ty:
        # derived Debug of a field-less variant prints its name
        from .typedefs import EnumDef
        d = eng.td.lookup(v.ty)
        if isinstance(d, EnumDef):
            return list(d.variants[v.v][0].encode())
    raise Unsupported('Debug formatting of %r' % (v,))


def apply_spec(eng, body, flags, width, prec, is_num):
    if width is None:
        return body
    n = len(body)   # ASCII assumed for padding purposes
    if n >= width:
        return body
    pad = width - n
    align = (flags >> 29) & 3
    fill = flags & 0x1fffff
    zero = bool(flags & (1 << 24))
    if zero and is_num:
        if body and body[0] in (45, 43) and not is_sym(body[0]):
            return [body[0]] + [48] * pad + body[1:]
        return [48] * pad + body
    fb = list(chr(fill).encode('utf-8')) if fill else [32]
    if align == 3:
        align = 1 if is_num else 0
    if align == 0:
        return body + fb * pad
    if align == 1:
        return fb * pad + body
    l = pad // 2
    return fb * l + body + fb * (pad - l)


def render_fmt(eng, fa):
    t = fa.template
    args = fa.args
    out = []
    i = 0
    ai = 0
    n = len(t)
    while i < n:
        b = t[i]
        i += 1
        if b == 0:
            break
        if b < 0x80:
            out.extend(t[i:i + b])
            i += b
        elif b == 0x80:
            ln = t[i] | (t[i + 1] << 8)
            i += 2
            out.extend(t[i:i + ln])
            i += ln
        else:
            flags, width, prec = 0xE0000020, None, None
            if b != 0xC0:
                if b & 1:
                    flags = t[i] | (t[i + 1] << 8) | (t[i + 2] << 16) | (t[i + 3] << 24)
                    i += 4
                if b & 2:
                    width = t[i] | (t[i + 1] << 8)
                    i += 2
                if b & 4:
                    prec = t[i] | (t[i + 1] << 8)
                    i += 2
                if b & 8:
                    ai = t[i] | (t[i + 1] << 8)
                    i += 2
                if b & 16:
                    width = eng.concretize(args[width].val, range(0, 64), 'fmt width')
                if b & 32:
                    prec = eng.concretize(args[prec].val, range(0, 64), 'fmt precision')
                if not (flags & (1 << 27)) and not (b & 2):
                    width = None
                if not (flags & (1 << 28)) and not (b & 4):
                    prec = None
            a = args[ai]
            ai += 1
            out.extend(render_arg(eng, a, flags, width, prec))
    return out


def render_arg(eng, a, flags, width, prec):
    v = a.val
    ty = a.ty
    is_num = ty in INT_TYPES or ty in ('f64', 'f32')
    if a.kind == 'display':
        dv = deref(v)
        if prec is not None and (isinstance(dv, float) or (is_sym(dv) and z3.is_fp(dv))):
            if is_sym(dv):
                raise Unsupported('Display of a symbolic f64 with precision')
            body = list(rust_fixed(dv, prec).encode())
        elif prec is not None and (type(dv) is StrV or type(dv) is Slice):
            body = str_bytes(dv)[:prec]
        else:
            body = render_display(eng, v, ty)
        if flags & (1 << 21) and is_num and body and not (not is_sym(body[0]) and body[0] == 45):
            body = [43] + body
    elif a.kind == 'debug':
        body = render_debug(eng, v, ty)
    elif a.kind == 'lower_exp' or a.kind == 'upper_exp':
        dv = deref(v)
        if is_sym(dv):
            raise Unsupported('{:e} of a symbolic value')
        body = list(rust_exp(float(dv), prec, a.kind == 'upper_exp').encode())
    elif a.kind in ('lower_hex', 'upper_hex', 'binary', 'octal'):
        dv = deref(v)
        if is_sym(dv):
            raise Unsupported('{:x} of a symbolic value')
        w = INT_TYPES.get(ty, (64, False))[0]
        dv &= (1 << w) - 1
        s = {'lower_hex': '%x' % dv, 'upper_hex': '%X' % dv, 'binary': bin(dv)[2:], 'octal': '%o' % dv}[a.kind]
        if flags & (1 << 23):
            s = {'lower_hex': '0x', 'upper_hex': '0x', 'binary': '0b', 'octal': '0o'}[a.kind] + s
        body = list(s.encode())
    else:
        raise Unsupported('fmt arg kind ' + a.kind)
    return apply_spec(eng, body, flags, width, prec, is_num)


def rust_fixed(x, prec):
    if x != x:
        return 'NaN'
    if math.isinf(x):
        return 'inf' if x > 0 else '-inf'
    from decimal import Decimal, ROUND_HALF_EVEN
    d = Decimal(x)
    q = d.quantize(Decimal(1).scaleb(-prec), rounding=ROUND_HALF_EVEN)
    s = format(q, 'f')
    if s.startswith('-') and float(s) == 0 and not (math.copysign(1, x) < 0):
        s = s[1:]
    return s


def rust_exp(x, prec, upper):
    if x != x:
        return 'NaN'
    if math.isinf(x):
        return 'inf' if x > 0 else '-inf'
    if prec is None:
        r = repr(abs(x))
        # shortest digits
        from decimal import Decimal
        d = Decimal(r)
        sign, digits, exp = d.as_tuple()
        ds = ''.join(map(str, digits)).lstrip('0') or '0'
        e = len(ds) - 1 + exp if ds != '0' else 0
        ds = ds.rstrip('0') or '0'
        m = ds[0] + ('.' + ds[1:] if len(ds) > 1 else '')
    else:
        from decimal import Decimal, ROUND_HALF_EVEN
        if x == 0:
            m, e = '0' + ('.' + '0' * prec if prec else ''), 0
        else:
            d = Decimal(abs(x))
            e = d.adjusted()
            q = (d.scaleb(-e)).quantize(Decimal(1).scaleb(-prec), rounding=ROUND_HALF_EVEN)
            if q >= 10:
                e += 1
                q = (d.scaleb(-e)).quantize(Decimal(1).scaleb(-prec), rounding=ROUND_HALF_EVEN)
            m = format(q, 'f')
    s = ('-' if math.copysign(1, x) < 0 else '') + m + ('E' if upper else 'e') + str(e)
    return s


def _mk_argument(kind):
    def m(eng, ci, a, dt):
        ty = ci.generics[0] if ci.generics else '?'
        ty = ty.strip()
        while ty.startswith('&'):
            ty = ty[1:].lstrip()
            if ty.startswith("'"):
                ty = ty.split(' ', 1)[1]
            if ty.startswith('mut '):
                ty = ty[4:]
        return FmtArg(kind, a[0], ty)
    return m


for _k in ('display', 'debug', 'lower_exp', 'upper_exp', 'lower_hex', 'upper_hex', 'binary', 'octal', 'pointer'):
    MODELS['Argument::new_' + _k] = _mk_argument(_k)


@model('Argument::from_usize')
def _(eng, ci, a, dt):
    return FmtArg('usize', deref1(a[0]), 'usize')


@model('Arguments::new')
def _(eng, ci, a, dt):
    tpl = deref(a[0])
    args = deref(a[1])
    return FmtArgs(list(tpl.f) if hasattr(tpl, 'f') else tpl.items(), list(args.f) if hasattr(args, 'f') else args.items())


@model('Arguments::from_str', 'Arguments::new_const')
def _(eng, ci, a, dt):
    s = str_bytes(a[0]) if type(a[0]) is Slice else None
    if s is None:
        raise Unsupported('Arguments::from_str arg')
    # encode as one literal piece
    tpl = []
    i = 0
    while i < len(s):
        chunk = s[i:i + 127]
        tpl.append(len(chunk))
        tpl.extend(chunk)
        i += 127
    tpl.append(0)
    return FmtArgs(tpl, [])


@model('Arguments::as_str', 'Arguments::as_statically_known_str')
def _(eng, ci, a, dt):
    return none()


def snapshot_args(fa):
    out = []
    for a in fa.args:
        v = a.val
        if type(v) is Ref:
            inner = v.get()
            if type(inner) is Ref or type(inner) is Slice:
                snap = inner
            else:
                snap = copy_value(inner)
            out.append(FmtArg(a.kind, snap, a.ty))
        else:
            out.append(a)
    return FmtArgs(fa.template, out)


@model('fmt::format', 'fmt::format_inner')
def _(eng, ci, a, dt):
    fa = snapshot_args(a[0])
    return StrV(None, lambda: render_fmt(eng, fa))


@model('Formatter::write_str', 'Write::write_str')
def _(eng, ci, a, dt):
    fm = deref(a[0])
    if type(fm) is Opaque and fm.what == 'Formatter':
        fm.data.f.extend(str_bytes(a[1]))
        return ok(UNIT)
    if type(fm) is StrV:
        fm.f.extend(str_bytes(a[1]))
        return ok(UNIT)
    raise Unsupported('write_str on %r' % (fm,))


@model('Formatter::write_fmt', 'Write::write_fmt')
def _(eng, ci, a, dt):
    fm = deref(a[0])
    buf = fm.data if type(fm) is Opaque else fm
    buf.f.extend(render_fmt(eng, a[1]))
    return ok(UNIT)


@model('Write::write_char', 'Formatter::write_char')
def _(eng, ci, a, dt):
    fm = deref(a[0])
    buf = fm.data if type(fm) is Opaque else fm
    push_char_or_str(eng, buf.f, a[1])
    return ok(UNIT)


@model('Formatter::pad')
def _(eng, ci, a, dt):
    fm = deref(a[0])
    fm.data.f.extend(str_bytes(a[1]))
    return ok(UNIT)


@model('Display::fmt', 'Debug::fmt')
def _(eng, ci, a, dt):
    fm = deref(a[1])
    sty = (ci.self_ty or '').strip().lstrip('&')
    if ci.method == 'fmt' and ci.key.startswith('Debug'):
        fm.data.f.extend(render_debug(eng, a[0], sty))
    else:
        fm.data.f.extend(render_display(eng, a[0], sty))
    return ok(UNIT)


# ----------------------------------------------------------------------------- parse

_re_rust_float = re.compile(r'^[+-]?(?:inf|infinity|nan|(?:\d+\.?\d*|\.\d+)(?:[eE][+-]?\d+)?)$', re.I)


def parse_int_bytes(eng, bs, w, signed):
    """str::parse::<int>: -> Result value"""
    key = tuple(b.get_id() if is_sym(b) else b for b in bs)
    org = eng.int_str_origin.get(key)
    if org is not None and org[1] == w and org[2] == signed:
        return ok(org[0])
    perr = lambda: err(Opaque('ParseIntError'))
    if not bs:
        return perr()
    cb = concrete_bytes(bs)
    if cb is not None:
        s = cb.decode('utf-8', 'replace')
        if not re.fullmatch(r'[+-]?\d+', s) or (s[0] == '-' and not signed and False):
            return perr()
        if s[0] == '-' and not signed:
            return perr()
        v = int(s)
        lo = -(1 << (w - 1)) if signed else 0
        hi = (1 << (w - 1)) - 1 if signed else (1 << w) - 1
        return ok(v) if lo <= v <= hi else perr()
    neg = False
    i = 0
    first = bs[0]
    if eng.truth(eqc(first, 43)):
        i = 1
    elif signed and eng.truth(eqc(first, 45)):
        neg = True
        i = 1
    elif not signed and eng.truth(eqc(first, 45)):
        return perr()
    digs = bs[i:]
    if not digs:
        return perr()
    W = max(w * 2, 64)
    acc = z3.BitVecVal(0, W)
    for d in digs:
        if not eng.truth(is_ascii_digit(d)):
            return perr()
        dv = z3.ZeroExt(W - 8, ops.to_bv(d, 8)) - 48
        acc = acc * 10 + dv
    if len(digs) > 38:
        raise Unsupported('parse of very long digit string')
    if neg:
        lim = 1 << (w - 1)
        if eng.truth(z3.UGT(acc, z3.BitVecVal(lim, W))):
            return perr()
        return ok(z3.simplify(-z3.Extract(w - 1, 0, acc)))
    lim = (1 << (w - 1)) - 1 if signed else (1 << w) - 1
    if len(digs) >= len(str(lim)):
        if eng.truth(z3.UGT(acc, z3.BitVecVal(lim, W))):
            return perr()
    return ok(z3.simplify(z3.Extract(w - 1, 0, acc)))


def parse_f64_bytes(eng, bs):
    cb = concrete_bytes(bs)
    if cb is not None:
        try:
            s = cb.decode('utf-8')
        except UnicodeDecodeError:
            return err(Opaque('ParseFloatError'))
        if not _re_rust_float.match(s):
            return err(Opaque('ParseFloatError'))
        return ok(float(s))
    n = len(bs)
    eng.assumptions.add('str::parse::<f64>: validity = the documented grammar of f64::from_str (exact), value = uninterpreted function of the string')
    bvs = [ops.to_bv(b, 8) for b in bs]
    val = eng.uf('parse_f64_value_%d' % n, *([z3.BitVecSort(8)] * n + [ops.F64]))
    if eng.truth(_f64_grammar(bvs)):
        return ok(val(*bvs))
    return err(Opaque('ParseFloatError'))


def _f64_grammar(bvs):
    """z3 Bool: the byte string matches  [+-]? ( digit* ('.' digit*)? with >=1 digit ) ([eE][+-]?digit+)?  |  [+-]?(inf|infinity|nan)"""
    def ch(b, c):
        return b == z3.BitVecVal(ord(c), 8)

    def ci(b, c):
        return z3.Or(b == z3.BitVecVal(ord(c), 8), b == z3.BitVecVal(ord(c.upper()), 8))

    def digit(b):
        return z3.And(z3.UGE(b, z3.BitVecVal(48, 8)), z3.ULE(b, z3.BitVecVal(57, 8)))
    F = z3.BoolVal(False)
    # states: 0 start, 1 signed, 2 int digits, 3 '.' after int digits, 4 '.' without int digits, 5 fraction digits,
    #         6 after e, 7 after exponent sign, 8 exponent digits
    cur = [z3.BoolVal(True)] + [F] * 8
    for b in bvs:
        d = digit(b)
        sign = z3.Or(ch(b, '+'), ch(b, '-'))
        dot = ch(b, '.')
        e = ci(b, 'e')
        nxt = [F] * 9
        nxt[1] = z3.And(cur[0], sign)
        nxt[2] = z3.And(z3.Or(cur[0], cur[1], cur[2]), d)
        nxt[3] = z3.And(cur[2], dot)
        nxt[4] = z3.And(z3.Or(cur[0], cur[1]), dot)
        nxt[5] = z3.And(z3.Or(cur[3], cur[4], cur[5]), d)
        nxt[6] = z3.And(z3.Or(cur[2], cur[3], cur[5]), e)
        nxt[7] = z3.And(cur[6], sign)
        nxt[8] = z3.And(z3.Or(cur[6], cur[7], cur[8]), d)
        cur = nxt
    acc = z3.Or(cur[2], cur[3], cur[5], cur[8])
    n = len(bvs)
    for word in ('inf', 'nan', 'infinity'):
        for off in (0, 1):
            if n == len(word) + off:
                conds = [ci(bvs[off + k], word[k]) for k in range(len(word))]
                if off:
                    conds.append(z3.Or(ch(bvs[0], '+'), ch(bvs[0], '-')))
                acc = z3.Or(acc, z3.And(conds))
    return z3.simplify(acc)


@model('str::parse', 'FromStr::from_str')
def _(eng, ci, a, dt):
    ty = (ci.generics[0] if ci.generics else (ci.self_ty or '')).strip()
    bs = str_bytes(a[0])
    if ty in INT_TYPES and ty != 'char':
        w, s = INT_TYPES[ty]
        return parse_int_bytes(eng, bs, w, s)
    if ty == 'f64':
        return parse_f64_bytes(eng, bs)
    if ty == 'bool':
        if eng.truth(bytes_eq(bs, list(b'true'))):
            return ok(True)
        if eng.truth(bytes_eq(bs, list(b'false'))):
            return ok(False)
        return err(Opaque('ParseBoolError'))
    if ty in ('String', 'std::string::String'):
        return ok(StrV(bs))
    fn = eng.resolve_trait_impl(ty, 'FromStr', 'from_str')
    if fn is not None:
        return eng.run_fn(fn, [a[0]])
    raise Unsupported('parse::<%s>' % ty)
