"""./check driver: build (MIR + native replay binary) from /repo's current tree, explore the property's
harnesses symbolically, validate every explored path natively, replay counterexamples natively,
apply known findings, write evidence/<id>.json.

exit 0  held within the stated bounds (possibly with KNOWN-FINDING lines)
exit 1  VIOLATION (counterexample reproduced by the real code, dev profile; release too in thorough)
exit 2  inconclusive (build failure, unsupported construct, solver unknown, budget, engine/native disagreement)
"""
import os, sys, json, time, re, subprocess, tempfile, shutil, random, hashlib
from . import build, run, portfolio

VERIF = build.VERIF
PROPS = {}


CELLS_TXT = 'cells with content (number, boolean, error, text, number-looking text, quote-prefixed text; symbolic position and style) through the real Model edit and its move_cell / set_user_input re-entry, en and de locale; formulas typed through the real lexer+parser (`=B2+$C$3+D10:E12+Sheet2!A1` on Sheet1, `=Sheet1!B2*2` on Sheet2) with the edit position and count symbolic; computed values through the real evaluator before and after the edit (B2, C3 from {1.5, -2, 4, 0.25}, `=B2+$C$3`, `=Sheet1!B2+1`, position 1..=25, count 1..=4)'


def prop(pid, **kw):
    PROPS[pid] = kw


# per property: harness-name prefix(es), bounds text, what is outside the claim
UM_OUT = ('every operation whose diff carries cell content (arrays, clears, cell styles, borders, named styles, paste, autofill, '
          'sheet-local clashes of defined names, conditional formats, rename/duplicate sheet, locale/timezone/name/theme) and all structural operations on sheets that '
          'contain cells - those run the parser, set_user_input and the evaluator; selection/view state is not compared (not listed by the property)')
UM_BOUNDS = ('one operation (then undo, then redo) from an arbitrary cell-free workbook: <=2 sheets with one column descriptor and one row record each '
             '(symbolic position/flags/styles, widths 8/13/21/34), symbolic frozen panes/grid lines, or <=3 sheets with symbolic visibility for the '
             'sheet operations; spans of multi-line operations <=2, block moves of 1 line by |offset|<=2; evaluation paused; cell input from a menu; one global defined name '
             'updated (new name / new formula / sheet scope), deleted (addressed in any case) or joined by a second name')
prop('C01', prefix=['c01'], bounds=UM_BOUNDS, outside=UM_OUT)
prop('C02', prefix=['c01', 'c02'], bounds=UM_BOUNDS + '; History cursor: any sequence of <=4 push/undo/redo calls', outside=UM_OUT)
prop('C03', prefix=['c03'], bounds=UM_BOUNDS + '; replica = second model of the same workbook applying the recorded send queue (bitcode cut out)',
     outside=UM_OUT + '; the serialization of the queue')
prop('C04', prefix=['c04'], bounds=UM_BOUNDS + '; arguments unconstrained (any i32/u32/f64 incl. negative, NaN, out of grid, nonexistent sheet); block moves (<=2 lines, |offset| <=2) '
     'starting within 3 lines of the end of the grid on a sheet with two number cells in the last three rows / columns',
     outside=UM_OUT + '; operations taking text that needs parsing')
prop('C28', prefix=['c01', 'c28'], bounds=UM_BOUNDS + '; selection setters with unconstrained arguments',
     outside='keyboard navigation / page up-down (pixel arithmetic over float sums), duplicate_sheet (parser), operations on sheets with cells')
prop('C05', prefix=['c05'],
     bounds='one sheet: a number cell A1 (any finite f64), the chain B1 = A1+1, C1 = B1+A1 typed before the cells it reads, two cycles (A2 = B2+1 / B2 = A2*2 and '
            'A3 = C3 / C3 = A3), a reader of a cycle (C2 = A2), a formula off every cycle (A4); Model::evaluate run from its MIR, a second pass, then A1 '
            'replaced by another finite f64 and A4 by =A1+A1 and evaluated again; values read with get_cell_value_by_index; two readers with the same formula, one placed '
            'before and one after the cell they read (B1 = =C1 with C1 a number / boolean / empty / text / error; an overflowing product; a dynamic array blocked by user '
            'content): both readers agree with each other and with what the read cell shows; two layouts in which a formula reads a cell filled by a dynamic array and is itself demanded '
            'by an earlier dynamic array (first pass, second pass, and after the input behind the spill changes)',
     outside='longer chains and cycles, ranges, names, spills and dynamic arrays (two-phase evaluation), cross-sheet dependencies, functions, '
             'the converse "shows #CIRC! only if on a cycle" beyond these cells')
prop('C06', prefix=['c06'],
     bounds='two input cells A1, B1, each a number / boolean / empty / the text abc / the error #N/A (solver chooses; for + - and the comparisons also the empty text and the error #DIV/0!), one formula in C1 typed through the real '
            'parser and evaluated by the real evaluator from MIR: A1+B1 and A1-B1 with any two finite f64 (overflow -> #NUM!); A1*B1, A1/B1, A1%, A1&B1 and the six '
            'comparisons with numbers from {0, 1.5, -2, 1e200, 4}; -A1, IF(A1,B1,7), AND, OR, NOT, SUM(A1:B1), COUNT, COUNTA, ISNUMBER, ISTEXT, ISBLANK, '
            'IFERROR(A1,9) with any finite f64; AND / OR with literal, computed and referenced text arguments; ABS, MIN(A1:B1), MAX, AVERAGE, ROUND(A1,0), LEN, CONCAT(A1,B1) with the number menu; reference rules written in the harness: booleans count as 1/0 and empty as 0 in arithmetic, text is #VALUE!, '
            'the left error wins, numbers < text < booleans in comparisons with empty taking the other side\'s type, ranges skip text/booleans/empties in SUM '
            'and COUNT, AND/OR scan left to right and stop at the deciding value (the engine\'s documented short circuit - Excel would still report an '
            'error behind it)',
     outside='^ (powf), ROUND to other digit counts, literals as operands, strings that look like numbers, comparison of numbers that differ '
             'beyond 15 significant digits, nested formulas, arrays and broadcasting, other text than abc, other errors than #N/A')
prop('C07', prefix=['c07'],
     bounds='one sheet with A1 = 1.5, B1 = A1+1, C1 = SUM(A1:B1), D1 = SEQUENCE(2) (spilling into D2), E1 = D2*2, A2 = C1&"x": a reference build (dependency order, one '
            'evaluation at the end) against a build that enters the formulas in one of four orders (solver chooses), evaluates after every edit or only at the end, '
            'and enters the number first or last; then both are evaluated again; seven cells compared; two dynamic arrays with overlapping spill areas (C1 = SEQUENCE(3), A3 = SEQUENCE(1,3)) entered in either order, '
            'evaluated after each edit or once; a value typed into cell 2..=4 of a standing vertical or horizontal SEQUENCE(4) spill, evaluated between the edits or once; '
            'an array reading only the spilled cells of a later one, one versus two evaluations, either entry order',
     outside='save-and-reload in between (bitcode / xlsx), other formulas and orders, volatile functions, larger spill chains')
prop('C08', prefix=['c08'],
     bounds='Model::set_cells_with_result on a formula cell of each kind (plain, CSE anchor over <=2x2 with its spill cells, dynamic anchor) with a result that is any '
            'f64 (NaN and infinities included) or an array of 1x1..2x2 such numbers; through the real evaluator: A1+B1, A1-B1, A1*B1, -A1, SUM(A1:B1), A1*B1+A1 over any two finite f64 leave a finite number or #NUM!',
     outside='whether a built-in function can produce a non-finite value in the first place (the ~495 functions), numbers typed by the user or read from files, '
             'strings/booleans/errors in arrays; the check decides: if a non-finite value reaches the store, is it stored?')
prop('C09', prefix=['c09'],
     bounds='(a) operator trees of depth two built directly: (a op1 b) op2 c and a op2 (b op1 c) for every pair of + - * / ^ & = <, unary minus and percent over a '
            'binary operator, unary minus / percent on an operand; leaves: a relative reference and the number 2; (b) formulas assembled as text and parsed first: '
            '<leaf><op><leaf>, -<leaf>, <leaf>% with leaves A1 / $B$2 / Sheet1!C$3 / Ghost!A1 / A1:B2 / $A:$B / 2:3 / 1.5 / "a""b" / TRUE / #N/A / {1,2;3,4} and the 13 '
            'binary operators incl. the range operator; (c) function calls (real English function table): SUM(a,b), IF(a op b,a,b), SUM(a) op b, a op MAX(b,2), '
            '-SUM(a op b), IF(AND(a,PI()>3),b%,NOT(a)) with 6 argument texts and 6 operators; (d) the texts of (c) shown in de / es / fr / it (real tables) with the en or the hand-built de locale and read back there; (e) LAMBDA(x,y,x+y)(1.5,2) shown in the en and the decimal-comma locale and read back there.  (a)-(c) printed by to_rc_format (stored form) and to_localized_string '
            '(display form, en) and parsed back by the real lexer + parser; value-preserving re-associations (a+(b+c), a+(b-c), a&(b&c), -(a*b), -(a/b), a:(b:c)) '
            'are not demanded; texts the parser rejects are skipped',
     outside='deeper trees, other functions, other LAMBDA/LET forms, implicit intersection and spill operators, numbers that print in scientific notation, the xlsx export form, '
             'other locales, the operator trees and leaf menus of (a)/(b) in other languages')
prop('C10', prefix=['c10'],
     bounds='one sheet with A1 = 1.5 and five formulas typed in English (SUM/IF with a decimal literal, AND/TRUE with a comparison, * and & with a string, '
            'IFERROR/MAX over a division by zero, IFERROR/ISERROR over the error literals #VALUE! and #N/A); the display language switched to de / es / fr / it (solver chooses) and/or the locale to de (hand-built), '
            'then what is shown typed back there, then switched back; language tables are the engine\'s own (native probe)',
     outside='defined names, the other locales (their tables are a bitcode blob: only en and a hand-built de exist in the encoding), functions whose '
             'result depends on the locale, formulas and numbers beyond the four listed, dates')
prop('C11', prefix=['c11'],
     bounds='every ASCII string of length <=3 through the real formula lexer in A1 and R1C1 mode (en locale/language) until EOF; `$` + 1..=10 arbitrary upper-case letters + `1` through the lexer; every ASCII string of length <=3 through the real formula parser (A1 mode; R1C1 mode in the thorough tier; function names looked up in the real English table); and through the '
            'number-format lexer + parser and the date-format detector; length <=4 through column_to_number, parse_reference_a1/r1c1, is_valid_identifier, '
            'is_valid_column, quote_name.  The number recogniser (C19) and the F4 kernel (C34) are panic-checked by their own harnesses',
     outside='formula completion, set_user_input on the models, printing of arbitrary parse results, the number formatter (float to digits), non-ASCII text, longer strings, '
             'other locales/languages')
prop('C12', prefix=['c12'],
     bounds='references: row/column/position/count any i32 inside the grid, sheet indices any u32; ranges: corners, context, position, count in '
            'rows 1..=120 x columns 1..=30 (whole grid in the thorough tier), whole-column/whole-row ranges at the real grid limits; '
            'Model::insert_*: <=2 column descriptors or row records (widths/heights fixed to 8/13/21/34), 1 hyperlink, any in-grid position and count; ' + CELLS_TXT,
     outside='CSE arrays, defined names, spills, function calls in the moved formulas, values of other formulas than the two listed, '
             'the parser that produced the reference node in the node-level harnesses')
prop('C13', prefix=['c13'],
     bounds='as C12 for deletion (a deleted referenced line gives #REF! as text and as value)',
     outside='as C12')
prop('C14', prefix=['c14'],
     bounds='position and count any i32 inside the grid; one CF coordinate; Model insert;delete on <=2 descriptors/records + 1 link; cells with content and the '
            'two formulas of C12 through insert;delete of the same lines',
     outside='CSE arrays, defined names, spills, computed values')
prop('C15', prefix=['c15'],
     bounds='single-line move of a reference: any offset inside the grid; CF chain block <=2 (quick) / <=3 (thorough); Model::move_rows_action '
            'block <=3, |offset| <=2, <=1 row record, 1 link (thorough: |offset| <=3); move_columns_action block <=1, |offset| <=2, '
            '<=1 descriptor, 1 link (thorough: block <=2, |offset| <=3); cells with content, the single-cell-reference formulas and the computed values of C12 '
            'under block moves (<=2 lines, |offset| <=2)',
     outside='array-formula split checks, ranges under moves, CSE arrays, defined names')
prop('C16', prefix=['c16'],
     bounds='ref_is_in_area: any in-grid i32 and sheet ids; cut/copy: formula cell, reference targets, cut area and paste offsets inside rows 1..=120 x '
            'columns 1..=30 (offsets of either sign), same or other target sheet, reference on the cut sheet or another; ranges with absolute corners; '
            'Model::get_external_formula_updates_for_cut on two sheets with `=B2+$C$3` at E5 and `=Sheet1!B2*2` on Sheet2 (typed through the real parser), '
            'cut area anywhere in rows/columns 1..=6 up to 3x3, paste target rows 1..=12 x columns 1..=9',
     outside='the moved-formula printer for operators other than +, functions, arrays and separators (known to drop parentheses), paste orchestration in '
             'clipboard.rs, conditional-format ranges and defined names under cut, values, ranges in the Model-level harness')
prop('C17', prefix=['c17'],
     bounds='three sheets; `=Sheet2!A1+Sheet3!$B$2+Ghost!C3+D4+Ghost!A1:B2` on Sheet1 `=A1*Sheet1!B5` on Sheet2 and `=Sheet2!A1#` on Sheet3, typed through the real parser; rename of '
            'any of the three sheets to one of New / My Sheet / a&b / TRUE / its own name in upper case; move of any sheet to any index; computed values (real evaluator) of three cross-sheet formulas incl. SUM over a range on another sheet, inputs from {1.5, -2, 0.25}, before and after any such rename or move',
     outside='defined names (global / sheet-local), duplicate_sheet, other names and formulas')
prop('C18', prefix=['c18'],
     bounds='one cell at a symbolic position holding one of: the numbers 1.5 / 123 / -0.25 / 1234567.5, TRUE, FALSE, the text abc, the quote-prefixed texts '
            '123 / TRUE / #N/A / 1,5, an empty styled cell; default, bold or percent-formatted style; en and de locale (hand-built), en language; the same cells after one of TRUE / 12 / abc / \'x was typed over them (en); the same cells re-entered in the display languages de / es / fr / it (real tables)',
     outside='other numbers (the float->text conversion is executed for concrete values only), dates and date formats, formulas, UserModel wrappers')
prop('C19', prefix=['c19'],
     bounds='parse_number: every ASCII string of length <=5 with . and , as separators, <=4 with , and . (<=7 thorough); parse_formatted_number: '
            'body%, $body, -$body, body$ and plain body for every printable-ASCII body (no white space, no /) of length <=3 (<=4 thorough), en separators, currency $',
     outside='the numeric value of a digit string (f64::from_str: validity is its documented grammar, the value is uninterpreted), dates, white space '
             'handling, non-ASCII currency symbols and separators, what Model::set_user_input does with the result')
prop('C22', prefix=['c22'],
     bounds='all 16384 column numbers (one symbolic i32); every ASCII column string of length 0..=4; every valid sheet name over printable ASCII of '
            'length <=2 (<=3 thorough) quoted by quote_name and read back by the real lexer; cell addresses with row in {1,2,6,1048575,1048576} x column in '
            '{1,2,6,16383,16384} and ranges over {whole grid, line after the formula cell..last, first..line after, two inner lines, one line} per axis, every '
            '$ combination, formula cell E5, printed in the display (A1) and stored (R1C1) forms and parsed back by the real lexer+parser',
     outside='other coordinates and formula cells for the print->parse round trip (the A1 printer is checked against an independent text builder over a '
             'symbolic window under C16), sheet-qualified addresses through the parser, longer and non-ASCII sheet names')
prop('C27', prefix=['c27', 'c29'],
     bounds='<=2 column descriptors / <=2 row records (in-grid, well-formed pre-state), one Model-level structural edit '
            '(insert/delete any position and count; move block <=2, offset <=2) on a cell-free sheet; sheet names: three sheets (one named with non-ASCII letters), rename of any '
            'of them to one of seven names incl. case variants of the existing names - names stay unique ignoring (Unicode) case, a clash is refused',
     outside='sheet ids, sheet names under new/insert/duplicate/delete, cells inside the grid, style/shared-string/formula indices, spill anchors, defined names; '
             'the Worksheet setters are checked for the same invariant under C29 (check ids C27.*)')
prop('C29', prefix=['c29'],
     bounds='<=2 column descriptors, <=2 row records; one setter call from an arbitrary well-formed state; '
            'widths/heights any finite f64 in 0..=1e6 where only carried, 8/13/21/34 where the setter converts units',
     outside='Model-level wrappers (sheet lookup), sequences (covered inductively by the arbitrary pre-state)')
prop('C30', prefix=['c30', 'c29'],
     bounds='style attribute space: number format in {general, 0.00 (built-in), 0.000 (custom), @ (text)}, fill colour or none, alignment or none, symbolic '
            'bold/italic/size/wrap/quote prefix; two styles interned in sequence into the default pools, three for number formats alone; two cells through '
            'Model::set_cell_style / get_style_for_cell',
     outside='font names/colours, borders (neighbour logic), named styles and style includes, row/column style plumbing above the pool (C29 checks the '
             'row/column records), xlsx import/export of the pools')
prop('C31', prefix=['c31'],
     bounds='Model::set_cells_with_result on a dynamic anchor with an array result of 1x1..2x2 arbitrary finite numbers; each of the three neighbour cells is absent, '
            'an empty styled cell, user content, a stale spill of this anchor or a spill of another anchor (symbolic styles and anchor); anchor in the last row / column; through the real evaluator: =SEQUENCE($A$1) at an anchor anywhere in rows/columns 2..=4 shrinking from 3 rows to 1 or 2 on re-evaluation, '
            'and the horizontal spill =F1:H1 at A3 after deleting column G or H and re-evaluating',
     outside='other shrink/grow histories, undo, paste, row edits, 2-D spills through the evaluator; results larger than 2x2 in the write step')
prop('C32', prefix=['c32'],
     bounds='three sheets; global names Rate = Sheet1!$A$1 and Base = Data!$B$3 created through Model::new_defined_name, used by =Rate*2+Base and =SUM(Rate,Base); one of: '
            'set_language to de / es / fr / it, set_locale to de, rename of the sheet no name refers to, move of any sheet to any index, deletion of the sheet no name refers to; '
            'then (after the sheet rename) the name Rate is renamed to Tax; values through the real evaluator, stored and listed name formulas compared; a second layout with a name local to the third sheet created first: deleting that sheet '
            'leaves the global names working, and renaming Rate while moving it to the scope of Sheet1 rewrites the Sheet1 formula',
     outside='other uses of sheet-local names, names referring to ranges, lambdas or other names, renaming / deleting a sheet a global name refers to, both file round trips (xlsx, bitcode), '
             'other formulas')
prop('C33', prefix=['c33'],
     bounds='CF coordinates: row/column/position/count/offset any i32 inside the grid, sheet ids any u32; links: 2 links at any distinct in-grid '
            'cells, insert/delete any position and count, block move <=2 by |offset| <=2; a CellIs/Between rule on G20:H22 with bounds B2 and $C$3 under insert/delete of '
            '<=5 rows/columns at positions 1..=6 (rule formulas through the real parser and displaced printer)',
     outside='other CF rule kinds and formulas, rule formulas under moves and cut/paste, sqref strings, clear-removes-link and its undo, cut/paste orchestration')
prop('C34', prefix=['c34'],
     bounds='reference/range token texts assembled from symbolic pieces: optional leading space, no / unquoted 2-letter / quoted sheet prefix, endpoints '
            '[$]letters{1,2}[$]digits{1,2} | [$]letters | [$]digits, single or a:b; arbitrary ASCII text of length <=4 (<=6 thorough) for "touches only $ and case"; '
            'cycle_reference with the real tokenizer on =<ref or range with optional sheet prefix>+<ref>, symbolic $ markers, every cursor position / selection; ="é"&A1+1 and =\'Año\'!A1+B2 with the cursor anywhere in the first reference, four steps',
     outside='formulas other than =<ref>+<ref> for the cursor rule, other non-ASCII text, longer tokens')


def log(*a):
    print(*a, flush=True)


def load_known():
    p = os.path.join(VERIF, 'known_findings.json')
    if not os.path.exists(p):
        return []
    return json.load(open(p)).get('findings', [])


def native_run(binp, cases, timeout=600):
    """cases: [(harness, inputs)] -> [(status, [trace lines])]"""
    fd, path = tempfile.mkstemp(prefix='icverif-cases-', dir='/var/tmp')
    try:
        with os.fdopen(fd, 'w') as f:
            for name, inputs in cases:
                f.write('case %s\n' % name)
                for k, v in inputs:
                    f.write('in %s %d\n' % (k, v))
                f.write('end\n')
        p = subprocess.run([binp, path], stdout=subprocess.PIPE, stderr=subprocess.DEVNULL, timeout=timeout)
        out = p.stdout.decode('utf-8', 'replace').splitlines()
    finally:
        os.unlink(path)
    res, cur = [], None
    for line in out:
        if line.startswith('CASE '):
            cur = []
        elif line.startswith('END '):
            res.append((line[4:], cur or []))
            cur = None
        elif cur is not None:
            cur.append(line)
    if len(res) != len(cases):
        raise RuntimeError('replay binary produced %d results for %d cases (rc=%s)' % (len(res), len(cases), p.returncode))
    return res


def trace_lines(tr):
    out = []
    for e in tr:
        if e[0] == 'chk':
            out.append('chk %s %d' % (e[1], e[2]))
        elif e[0] == 'reach':
            out.append('reach %s' % e[1])
        elif e[0] == 'obs':
            out.append('obs %s %s %s' % (e[1], e[2], e[3]))
        elif e[0] == 'panic':
            out.append('panic')
    return out


def main():
    os.makedirs('/var/tmp', exist_ok=True)
    args = sys.argv[1:]
    if args and args[0] == '--setup':
        t = time.time()
        b = build.prepare(want_release=True)
        log('setup: built MIR + replay binaries for the current tree in %.0fs (%s)' % (time.time() - t, b['hash']))
        return 0
    if not args:
        log('usage: ./check <PROPERTY> [--tier quick|thorough] [--replay file]')
        return 2
    pid = args[0].upper()
    tier = os.environ.get('VERIF_TIER', 'quick')
    replay_file = None
    i = 1
    while i < len(args):
        if args[i] == '--tier':
            tier = args[i + 1]; i += 2
        elif args[i] == '--replay':
            replay_file = args[i + 1]; i += 2
        else:
            i += 1
    if tier not in ('quick', 'thorough'):
        tier = 'quick'
    seed = int(os.environ.get('VERIF_SEED', '0') or 0)
    if pid not in PROPS:
        log('unknown / unclaimed property %s' % pid)
        return 2
    t0 = time.time()
    try:
        b = build.prepare(want_release=(tier == 'thorough' or replay_file is not None))
    except Exception as e:
        log('INCONCLUSIVE property=%s build failed: %s' % (pid, str(e)[-3000:]))
        return 2
    if replay_file:
        return do_replay(pid, b, replay_file)
    cfg = PROPS[pid]
    hdir = build.HDIR
    names = []
    for m, fn, _ in build.harness_fns(hdir):
        mm = re.match(r'(ht?)_(c\d+)_', fn)
        if not mm or mm.group(2) not in cfg['prefix']:
            continue
        if mm.group(1) == 'ht' and tier != 'thorough':
            continue
        names.append(fn)
    if not names:
        log('INCONCLUSIVE property=%s no harness' % pid)
        return 2
    eng = run.load([(b['mir'], b['src'])], [(os.path.join(b['src'], 'src'), '')], {})
    budget = 1500 if tier == 'quick' else 10800
    # libz3 5.1 has been seen to segfault inside a worker (twice in several thousand runs, dmesg: "segfault ... in
    # libz3.so.5.1"); that kills the worker, not the verdict: the exploration is repeated from scratch, at most twice
    for attempt in range(3):
        out = tempfile.mkdtemp(prefix='icverif-run-', dir='/var/tmp')
        try:
            res = run.explore(eng, names, out, jobs=15, deadline=time.time() + budget)
        finally:
            shutil.rmtree(out, ignore_errors=True)
        crashed = any(r['type'] == 'error' and 'exited abnormally' in r.get('detail', '') for recs in res.values() for r in recs)
        if not crashed:
            break
        log('note: a solver worker process crashed (attempt %d); repeating the exploration' % (attempt + 1))
    return conclude(pid, tier, seed, b, names, res, t0, cfg)


def conclude(pid, tier, seed, b, names, res, t0, cfg):
    known = [k for k in load_known() if k.get('property') == pid and k.get('status', 'open') == 'open']
    incon, viol_recs = [], []
    n_paths = n_trans = 0
    stats = {}
    fns, models, assumptions = set(), set(), set()
    check_paths = {}
    reach_ok = {}
    samples = []
    validate = []
    for name in names:
        recs = res.get(name, [])
        paths = [r for r in recs if r['type'] == 'path']
        if not paths:
            incon.append('%s: no path record' % name)
        for r in recs:
            if r['type'] == 'error':
                incon.append('%s: %s' % (name, r['detail'][:300]))
            elif r['type'] == 'violation':
                # a harness may carry checks of several properties (C01/C02/C28 share the undo harnesses):
                # this run reports the ones that belong to this property; panics belong to the harness' own property
                mm = re.match(r'ht?_(c\d+)_', name)
                owner = mm.group(1).upper() if r['kind'] == 'panic' and mm else r['check'].split('.')[0]
                if owner == pid:
                    viol_recs.append(r)
        reached = False
        for p in paths:
            n_paths += 1
            n_trans += p.get('ndec', 0)
            for k, v in p['stats'].items():
                stats[k] = stats.get(k, 0) + v
            fns.update(p.get('fns', ()))
            models.update(p.get('models', ()))
            assumptions.update(p.get('assumptions', ()))
            st = p['status']
            if st in ('unsupported', 'inconclusive', 'internal-error'):
                incon.append('%s: %s %s' % (name, st, p['detail'][:400]))
            if st in ('ok', 'check-failed', 'panic') and 'inputs' in p:
                validate.append((name, p))
            if st == 'ok':
                for cid, n in p.get('checks', {}).items():
                    check_paths[cid] = check_paths.get(cid, 0) + 1
                if any(e[0] == 'reach' for e in p.get('trace', ())):
                    reached = True
                if len(samples) < 6 and p.get('inputs'):
                    samples.append({'harness': name, 'witness_inputs': p['inputs'], 'decisions': p.get('decisions', [])[-12:],
                                    'trace': p.get('trace', [])[:8]})
        reach_ok[name] = reached
        if not reached and not any(v['harness'] == name for v in viol_recs):
            incon.append('%s: vacuous - no feasible path reaches the end of the harness' % name)
    # every check id written in the harness sources of this property must have been reached
    hsrc = ''
    for m in build.harness_modules(build.HDIR):
        hsrc += open(os.path.join(build.HDIR, m + '.rs')).read()
    # --- translator validation: one witness input per explored path, real code vs encoding
    validated = 0
    mismatch = []
    if validate:
        try:
            nat = native_run(b['replay_dev'], [(n, p['inputs']) for n, p in validate])
        except Exception as e:
            nat = None
            incon.append('native validation run failed: %s' % e)
        if nat is not None:
            for (n, p), (status, lines) in zip(validate, nat):
                want = [l for l in trace_lines(p.get('trace', [])) if l != 'panic']
                st = p['status']
                ok = (lines == want)
                if st == 'check-failed':
                    # the engine ends a path at a check that cannot pass; the native run goes on
                    ok = (lines[:len(want)] == want)
                if st == 'ok':
                    ok = ok and status == 'ok'
                elif st == 'panic':
                    # an overflow panic exists only with overflow checks on (dev profile = replay_dev)
                    ok = ok and status.startswith('panic')
                if ok:
                    validated += 1
                else:
                    mismatch.append({'harness': n, 'inputs': p['inputs'], 'engine': want, 'engine_status': st,
                                     'native': lines, 'native_status': status, 'stats': p.get('stats'),
                                     'decisions': p.get('decisions'), 'ndec': p.get('ndec')})
    if mismatch:
        incon.append('engine/native disagreement on %d of %d validated paths, first: %s' %
                     (len(mismatch), len(validate), json.dumps(mismatch[0])[:1500]))
    # --- counterexamples: replay natively before reporting
    violations, known_hit = [], []
    groups = {}
    for v in viol_recs:
        groups.setdefault((v['harness'], v['check'], v['kind'], v.get('kf')), []).append(v)
    rundir = os.environ.get('VERIF_EVIDENCE_DIR') or os.path.join(VERIF, 'run')
    os.makedirs(rundir, exist_ok=True)
    for (hname, cid, kind, kf), vs in sorted(groups.items(), key=lambda kv: str(kv[0])):
        v = vs[0]
        try:
            (status, lines), = native_run(b['replay_dev'], [(hname, v['inputs'])])
        except Exception as e:
            incon.append('replay failed: %s' % e)
            continue
        if kind == 'panic':
            repro = status.startswith('panic')
        else:
            repro = ('chk %s 0' % cid) in lines
        if not repro:
            incon.append('counterexample for %s does not reproduce natively (inputs %s, native: %s %s)' %
                         (cid, json.dumps(v['inputs']), status, lines[-3:]))
            continue
        rel_status = None
        if os.path.exists(b['replay_release']):
            (rel_status, rel_lines), = native_run(b['replay_release'], [(hname, v['inputs'])])
            rel_repro = rel_status.startswith('panic') if kind == 'panic' else ('chk %s 0' % cid) in rel_lines
        else:
            rel_repro = None
        entry = {'property': pid, 'harness': hname, 'check': cid, 'kind': kind, 'inputs': v['inputs'],
                 'native_dev': {'status': status, 'trace': lines}, 'reproduces_release': rel_repro,
                 'panic': v.get('panic'), 'paths_with_this_failure': len(vs),
                 'replay_cmd': './check %s --replay <this file>' % pid}
        if kind == 'known':
            kfe = [k for k in known if k.get('id') == kf and cid in [x.strip() for x in str(k.get('check', '')).split(' / ')]]
            if kfe:
                known_hit.append((kfe[0], entry))
                continue
        if kind == 'panic' and 'overflow' in (v.get('panic') or ''):
            kfe = [k for k in known if k.get('check') == cid and k.get('kind') == 'overflow-panic']
            if kfe:
                known_hit.append((kfe[0], entry))
                continue
        path = os.path.join(rundir, 'violation-%s-%s.json' % (pid, re.sub(r'[^\w.]', '_', cid)))
        with open(path, 'w') as f:
            json.dump(entry, f, indent=1)
        violations.append((cid, path))
    for cid in sorted(set(re.findall(r'check(?:_kf)?\(\s*"(%s\.[^"]+)"' % pid, hsrc))):
        owner_names = names
        if cid not in check_paths and not any(c == cid for c, _ in violations) and \
                not any(e['check'] == cid for _, e in known_hit):
            # only demanded of harnesses that ran in this tier
            fnm = None
            for n in names:
                body = re.search(r'pub fn %s\b.*?\n}\n' % n, hsrc, re.S)
                if body and ('"%s"' % cid) in body.group(0):
                    fnm = n
            if fnm:
                incon.append('check %s (in %s) was reached on no feasible path (vacuous)' % (cid, fnm))
    wall = time.time() - t0
    ev = {
        'property_id': pid, 'tier': tier, 'seed': seed, 'level': 'model_checking',
        'coverage': {
            'states': n_paths, 'transitions': max(n_trans, 1),
            'traces_validated_against_impl': validated,
            'samples': samples or [{'note': 'no completed path'}],
            'explanation': 'bounded symbolic execution (mirsym) of the rustc MIR of /repo/base + harness; states = feasible '
                           'paths explored to their end, transitions = branch decisions on symbolic values; every '
                           'assertion/branch query decided by z3',
            'harnesses': names,
            'functions_encoded': sorted(f for f in fns if 'verif' not in f)[:200],
            'harness_functions': sorted(f for f in fns if 'verif' in f)[:100],
            'std_models_used': sorted(models)[:200],
            'check_sites_feasible_paths': check_paths,
            'queries': {k: stats.get(k, 0) for k in ('q_branch', 'q_assert', 'sat', 'unsat', 'unknown')},
            'queries_by_stage': {
                'incremental_z3_%dms' % eng_caps()[0]: stats.get('q_branch', 0) + stats.get('q_assert', 0) - stats.get('fallback', 0),
                'fresh_z3_%dms' % eng_caps()[1]: stats.get('fallback', 0) - stats.get('portfolio', 0),
                'portfolio_%dms' % eng_caps()[2]: {k[len('portfolio_'):]: v for k, v in sorted(stats.items())
                                                   if k.startswith('portfolio_')} if stats.get('portfolio', 0) else {},
                'portfolio_queries': stats.get('portfolio', 0),
            },
            'solver_s': round(stats.get('solver_s', 0.0), 2),
            'solver': 'z3 ' + z3_version() + ' in process; queries it leaves unknown go to the portfolio: ' +
                      ', '.join('%s (%s)' % kv for kv in sorted(portfolio.versions().items())),
            'bounds': cfg['bounds'], 'outside_claim': cfg['outside'],
            'source_hash': b['hash'],
            'known_findings_hit': [k['id'] for k, _ in known_hit],
            'inconclusive_reasons': incon[:20],
            'exhaustive': False,
        },
        'assumptions': sorted(assumptions)[:100] + [
            'rustc MIR (nightly, overflow-checks=on, debug-assertions=off) is the semantics of the source',
            'mirsym interpreter and its std models (validated per path against the native build)',
            'every rt::assume in the harness sources (harness/*.rs) is part of the claim'],
        'wall_s': round(wall, 2),
        'violations': len(violations),
    }
    evdir = os.environ.get('VERIF_EVIDENCE_DIR') or os.path.join(VERIF, 'evidence')
    os.makedirs(evdir, exist_ok=True)
    with open(os.path.join(evdir, pid + '.json'), 'w') as f:
        json.dump(ev, f, indent=1)
    log('property=%s tier=%s harnesses=%d paths=%d queries=%d solver_s=%.1f validated_natively=%d wall=%.0fs' %
        (pid, tier, len(names), n_paths, stats.get('q_branch', 0) + stats.get('q_assert', 0), stats.get('solver_s', 0.0),
         validated, wall))
    for k, e in known_hit:
        log('KNOWN-FINDING: property=%s %s [%s] %s' % (pid, k['id'], e['check'], k.get('what', '')))
    for cid, path in violations:
        log('VIOLATION property=%s replay=%s' % (pid, path))
        log('  failing check: %s' % cid)
    if violations:
        return 1
    if incon:
        for r in incon[:10]:
            log('INCONCLUSIVE property=%s %s' % (pid, r))
        return 2
    log('HELD property=%s within the stated bounds' % pid)
    return 0


def eng_caps():
    return (int(os.environ.get('MIRSYM_FAST_MS', 500)), int(os.environ.get('MIRSYM_FALLBACK_MS', 10_000)),
            int(os.environ.get('MIRSYM_QUERY_MS', 60_000)))


def z3_version():
    try:
        import z3
        return z3.get_version_string()
    except Exception:
        return '?'


def do_replay(pid, b, path):
    e = json.load(open(path))
    bad = False
    for prof, binp in (('dev', b['replay_dev']), ('release', b['replay_release'])):
        (status, lines), = native_run(binp, [(e['harness'], e['inputs'])])
        rep = status.startswith('panic') if e['kind'] == 'panic' else ('chk %s 0' % e['check']) in lines
        log('replay %s: status=%s reproduces=%s' % (prof, status, rep))
        for l in lines:
            log('   ' + l)
        bad = bad or rep
    if bad:
        log('VIOLATION property=%s replay=%s' % (pid, path))
        return 1
    return 0


if __name__ == '__main__':
    sys.exit(main())
