"""Runtime values of the symbolic MIR interpreter.

Scalars: python int/bool/float when concrete, z3 BitVecRef/BoolRef/FPRef when symbolic.
Everything with structure is a python object whose *shape* is concrete on every path.
All containers expose their element list as `.f` so that a pointer is (python list, index).
"""
import z3


class Agg:
    """struct / tuple / array / closure environment"""
    __slots__ = ('f', 'ty')

    def __init__(self, f, ty=None):
        self.f = f
        self.ty = ty

    def __repr__(self):
        return 'Agg<%s>%r' % (self.ty or '', self.f)


class Enum:
    __slots__ = ('v', 'f', 'ty')

    def __init__(self, v, f, ty=None):
        self.v = v          # variant *index* (concrete)
        self.f = f
        self.ty = ty

    def __repr__(self):
        return 'Enum<%s>#%s%r' % (self.ty or '', self.v, self.f)


class VecV:
    __slots__ = ('f',)

    def __init__(self, f):
        self.f = f

    def __repr__(self):
        return 'Vec%r' % (self.f,)


class StrV:
    """String: list of bytes (int or 8-bit z3 term).  `lazy` = unrendered format result."""
    __slots__ = ('_f', 'lazy', 'origin')

    def __init__(self, f=None, lazy=None):
        self._f = f
        self.lazy = lazy
        self.origin = None

    @property
    def f(self):
        if self._f is None:
            self._f = self.lazy()
            self.lazy = None
        return self._f

    @f.setter
    def f(self, v):
        self._f = v
        self.lazy = None

    def __repr__(self):
        if self._f is None:
            return 'Str<lazy>'
        try:
            return 'Str(%r)' % bytes(self._f).decode('utf-8', 'replace')
        except Exception:
            return 'Str%r' % (self._f,)


class MapV:
    """HashMap/HashSet as association list; f = list of [key, value] python lists.
    Keys are pairwise distinct under the current path condition."""
    __slots__ = ('f', 'ordered')

    def __init__(self, f=None, ordered=False):
        self.f = f if f is not None else []
        self.ordered = ordered

    def __repr__(self):
        return 'Map%r' % (self.f,)


class Ref:
    """pointer to a cell: python list + index"""
    __slots__ = ('lst', 'idx')

    def __init__(self, lst, idx):
        self.lst = lst
        self.idx = idx

    def get(self):
        return self.lst[self.idx]

    def set(self, v):
        self.lst[self.idx] = v

    def __repr__(self):
        try:
            return 'Ref->%r' % (self.lst[self.idx],)
        except Exception:
            return 'Ref(?)'


class Slice:
    """&[T] / &str / &mut [T]: view into a python list"""
    __slots__ = ('lst', 'lo', 'hi', 'is_str')

    def __init__(self, lst, lo, hi, is_str=False):
        self.lst = lst
        self.lo = lo
        self.hi = hi
        self.is_str = is_str

    def __len__(self):
        return self.hi - self.lo

    def items(self):
        return self.lst[self.lo:self.hi]

    def __repr__(self):
        if self.is_str:
            try:
                return '&str(%r)' % bytes(self.items()).decode('utf-8', 'replace')
            except Exception:
                pass
        return 'Slice%r' % (self.items(),)


class BoxV(Agg):
    """Box<T>: f[0] = Unique{ NonNull{ ptr } }, ptr = Ref to a one-element cell"""
    __slots__ = ()

    def __init__(self, value, uninit_layout=False):
        cell = [value]
        Agg.__init__(self, [Agg([Agg([Ref(cell, 0)])]), ()], 'Box')

    def ptr(self):
        return self.f[0].f[0].f[0]


class FnItem:
    __slots__ = ('path',)

    def __init__(self, path):
        self.path = path

    def __repr__(self):
        return 'FnItem(%s)' % self.path


class Closure(Agg):
    __slots__ = ('span',)

    def __init__(self, span, f):
        Agg.__init__(self, f, 'closure')
        self.span = span


class Opaque:
    """value the engine cannot look into (parser tables, locale, fmt internals)"""
    __slots__ = ('what', 'data')

    def __init__(self, what, data=None):
        self.what = what
        self.data = data

    def __repr__(self):
        return 'Opaque(%s)' % self.what


class FmtArg:
    __slots__ = ('kind', 'val', 'ty')

    def __init__(self, kind, val, ty):
        self.kind = kind
        self.val = val
        self.ty = ty


class FmtArgs:
    __slots__ = ('template', 'args')

    def __init__(self, template, args):
        self.template = template
        self.args = args


UNIT = ()


def is_sym(v):
    return isinstance(v, z3.ExprRef)


def copy_value(v):
    """value-semantics copy (for `copy` operands and Clone of plain data)"""
    t = type(v)
    if t is int or t is bool or t is float or v is None or t is tuple:
        return v
    if isinstance(v, z3.ExprRef) or t is Ref or t is Slice or t is FnItem or t is Opaque:
        return v
    if t is Agg:
        return Agg([copy_value(x) for x in v.f], v.ty)
    if t is Enum:
        return Enum(v.v, [copy_value(x) for x in v.f], v.ty)
    if t is VecV:
        return VecV([copy_value(x) for x in v.f])
    if t is StrV:
        if v._f is None:
            s = StrV(None, v.lazy)
        else:
            s = StrV(list(v._f))
        s.origin = v.origin
        return s
    if t is MapV:
        return MapV([[copy_value(k), copy_value(x)] for k, x in v.f], v.ordered)
    if t is BoxV:
        return BoxV(copy_value(v.ptr().get()))
    if t is Closure:
        return Closure(v.span, [copy_value(x) for x in v.f])
    if hasattr(v, 'clone'):
        return v.clone()
    raise TypeError('copy_value: %r' % (v,))
